#!/usr/bin/env python3
# replay.py <counterexample-dir>: re-runs the solver's counterexample against the natively compiled real code.
# The harness is compiled by the ordinary Go tool chain (go test -overlay, nothing is written to /repo) with the
# native bodies of the zzvp vocabulary (replay/): Any*() return the model's values in call order, Choose() the
# recorded choices. Prints one line:
#   REPLAY reproduced: <assertion> fails natively            (exit 1)
#   REPLAY not-reproduced: ...                                (exit 3: the encoding or a stub misrepresents the code)
#   REPLAY not-replayable: harness uses <env function>        (exit 4: pre-state lives in the environment model)
#   REPLAY not-reproduced-env: closed-world harness on a real app context did not reproduce (exit 5: the app's
#       genesis state differs from the model's closed world; the solver verdict stands)
import json, os, re, subprocess, sys, glob, shutil
V = '/verif'; REPO = os.environ.get('VP_REPO', '/repo')
d = os.path.abspath(sys.argv[1])
cex = json.load(open(d + '/counterexample.json'))
h, prop = cex['harness'], cex['property']
if 'replay_inputs' not in cex:
    print('REPLAY not-replayable: counterexample predates replay support'); sys.exit(4)
src = None
for f in glob.glob(V + '/harness/*.go'):
    t = open(f).read()
    if re.search(r'^func %s\(\)' % re.escape(h), t, re.M):
        src = f; break
if not src:
    print('REPLAY error: harness %s not found' % h); sys.exit(2)
txt = open(src).read()
target = re.search(r'^//vp:target\s+(\S+)', txt, re.M).group(1)
pkgdir = os.path.dirname(target)
pkgname = re.search(r'^package (\w+)', txt, re.M).group(1)
work = '%s/.work/replay-%d' % (V, os.getpid())
os.makedirs(work, exist_ok=True)
ov = {}
# every harness file of this property that lives in the same package (helpers)
for f in glob.glob(V + '/harness/*.go'):
    t = open(f).read()
    m = re.search(r'^//vp:target\s+(\S+)', t, re.M)
    if not m or os.path.dirname(m.group(1)) != pkgdir:
        continue
    props = re.search(r'^//vp:props\s+(.+)$', t, re.M)
    names = set(re.findall(r'^func VP_(C\d+)_', t, re.M))
    if f == src or (props and prop in props.group(1).split()) or prop in names:
        ov['%s/%s' % (REPO, m.group(1))] = f
ov[REPO + '/zzvp/vp_native.go'] = V + '/replay/vp_native.go'
ov[REPO + '/zzvp/native_impl.go'] = V + '/replay/native_impl.go'
alltxt = ''.join(open(f).read() for f in ov.values() if f.startswith(V + '/harness/'))
# the text of the harness function and of the vp* helpers it reaches
def func_bodies(txt):
    out = {}
    for m in re.finditer(r'^func (?:\([^)]*\) )?(\w+)\([^\n]*\{[^\n]*\}[ \t]*$', txt, re.M):  # one-line functions
        out[m.group(1)] = m.group(0)
    rest = re.sub(r'^func (?:\([^)]*\) )?\w+\([^\n]*\{[^\n]*\}[ \t]*$', '', txt, flags=re.M)
    for m in re.finditer(r'^func (?:\([^)]*\) )?(\w+)\(.*?^}', rest, re.M | re.S):
        out[m.group(1)] = m.group(0)
    return out
bodies = func_bodies(alltxt)
seen, todo, reach_txt = set(), [h], ''
while todo:
    fn = todo.pop()
    if fn in seen or fn not in bodies:
        continue
    seen.add(fn)
    reach_txt += bodies[fn]
    todo += re.findall(r'\b(vp\w+)\(', bodies[fn])
m_open = re.search(r'zzvp\.(Ctx|Stub|StubMonotone|InjectFault|BalanceDelta|SupplyDelta|OnlyWritten|Spy\w+)\(', reach_txt)
if m_open:
    shutil.rmtree(work, ignore_errors=True)
    print('REPLAY not-replayable: harness uses zzvp.%s (its pre-state / stubs live in the environment model)' % m_open.group(1)); sys.exit(4)
uses_env = bool(re.search(r'zzvp\.(EmptyCtx|ClosedCtx|Wire)\(', reach_txt))
RECOVER = '''		defer func() {
			if r := recover(); r != nil {
				switch v := r.(type) {
				case zzvp.NotReplayable:
					fmt.Printf("REPLAY-RESULT not-replayable: harness uses zzvp.%s (its pre-state lives in the environment model)\\n", v.What)
				case zzvp.AssumeFailed:
					fmt.Printf("REPLAY-RESULT diverged: assumption number %d of the harness does not hold for the model's inputs (env=%v)\\n", v.N, zzvp.ReplayUsedEnv())
				default:
					fmt.Printf("REPLAY-RESULT panic: the harness panicked natively: %v (env=%v)\\n", r, zzvp.ReplayUsedEnv())
				}
			}
		}()
'''
if not uses_env:
    test = '''//go:build verif

package %s

import (
	"fmt"
	"testing"

	"github.com/comdex-official/comdex/zzvp"
)

func TestVPReplay(t *testing.T) {
	zzvp.SetReplayDir(%s)
	if err := zzvp.LoadReplay(%s); err != nil {
		t.Fatal(err)
	}
	for try := 0; try < 40; try++ {
		done := false
		func() {
%s			%s()
			if len(zzvp.ReplayFailed()) > 0 || !zzvp.ReplayUsesMapOrder() || try == 39 {
				fmt.Printf("REPLAY-RESULT ran: failed=%%q checked=%%q env=%%v maporder=%%v tries=%%d\\n", zzvp.ReplayFailed(), zzvp.ReplayChecked(), zzvp.ReplayUsedEnv(), zzvp.ReplayUsesMapOrder(), try+1)
				done = true
			}
		}()
		if done || !zzvp.ReplayUsesMapOrder() {
			break
		}
		// the harness depends on Go's random map order: run it again with the same inputs
		if err := zzvp.LoadReplay(%s); err != nil {
			t.Fatal(err)
		}
	}
}
''' % (pkgname, json.dumps(d), json.dumps(d), RECOVER, h, json.dumps(d))
else:
    # closed-world harness: an external test package may import the app; it hands a real context and the real keepers
    # to the native zzvp (no environment model is involved natively)
    imp = 'github.com/comdex-official/comdex/' + pkgdir
    test = '''//go:build verif

package %s_test

import (
	"fmt"
	"reflect"
	"testing"
	"time"

	sdkmath "cosmossdk.io/math"
	tmproto "github.com/cometbft/cometbft/proto/tendermint/types"
	sdk "github.com/cosmos/cosmos-sdk/types"
	authtypes "github.com/cosmos/cosmos-sdk/x/auth/types"

	chain "github.com/comdex-official/comdex/app"
	target "%s"
	"github.com/comdex-official/comdex/zzvp"
)

func TestVPReplay(t *testing.T) {
	zzvp.SetReplayDir(%s)
	if err := zzvp.LoadReplay(%s); err != nil {
		t.Fatal(err)
	}
	a := chain.Setup(t, false)
	h, now := int64(1), int64(1700000000)
	if v, ok := zzvp.ReplayModelInt("height_"); ok {
		h = v
	}
	if v, ok := zzvp.ReplayModelInt("now_"); ok {
		now = v
	}
	ctx := a.BaseApp.NewContext(false, tmproto.Header{Height: h, Time: time.Unix(now, 0).UTC()})
	zzvp.NativeEnv.Ctx = func() sdk.Context { return ctx }
	zzvp.NativeEnv.Wire = func(dst interface{}) bool {
		dv := reflect.ValueOf(dst).Elem()
		av := reflect.ValueOf(a).Elem()
		for i := 0; i < av.NumField(); i++ {
			f := av.Field(i)
			if f.Type() == dv.Type() {
				dv.Set(f)
				return true
			}
			if f.Kind() == reflect.Ptr && !f.IsNil() && f.Type().Elem() == dv.Type() {
				dv.Set(f.Elem())
				return true
			}
		}
		return false
	}
	zzvp.NativeEnv.ModuleAddr = func(name string) sdk.AccAddress { return authtypes.NewModuleAddress(name) }
	zzvp.NativeEnv.Balance = func(ad sdk.AccAddress, denom string) sdkmath.Int { return a.BankKeeper.GetBalance(ctx, ad, denom).Amount }
	zzvp.NativeEnv.Supply = func(denom string) sdkmath.Int { return a.BankKeeper.GetSupply(ctx, denom).Amount }
	func() {
%s		target.%s()
		fmt.Printf("REPLAY-RESULT ran: failed=%%q checked=%%q env=%%v\\n", zzvp.ReplayFailed(), zzvp.ReplayChecked(), zzvp.ReplayUsedEnv())
	}()
}
''' % (pkgname, imp, json.dumps(d), json.dumps(d), RECOVER, h)
open(work + '/zz_vp_replay_test.go', 'w').write(test)
ov['%s/%s/zz_vp_replay_test.go' % (REPO, pkgdir)] = work + '/zz_vp_replay_test.go'
json.dump({'Replace': ov}, open(work + '/ov.json', 'w'))
env = dict(os.environ, GOFLAGS='-mod=mod', GOPROXY='off', GOSUMDB='off', GOTOOLCHAIN='local')
p = subprocess.run(['go', 'test', '-tags', 'verif', '-vet=off', '-count=1', '-overlay', work + '/ov.json', '-run', '^TestVPReplay$', '-v', './' + pkgdir],
                   cwd=REPO, env=env, capture_output=True, text=True, timeout=1500)
shutil.rmtree(work, ignore_errors=True)
res = [l for l in p.stdout.split('\n') if l.startswith('REPLAY-RESULT')]
if not res:
    print('REPLAY error: native run produced no result\n' + (p.stdout + p.stderr)[-1500:]); sys.exit(2)
r = res[0][len('REPLAY-RESULT '):]
want = cex['assertion']
if r.startswith('ran:'):
    failed = re.search(r'failed=\[(.*?)\] checked', r).group(1)
    if '"%s"' % want in failed:
        print('REPLAY reproduced: assertion "%s" of %s fails against the natively compiled code with the solver\'s inputs' % (want, h)); sys.exit(1)
    if 'maporder=true' in r:
        print('REPLAY not-replayable: %s depends on map iteration order, which cannot be forced natively; 40 native runs with Go\'s random order did not hit the failing order (%s)' % (h, r)); sys.exit(4)
    if 'env=true' in r:
        print('REPLAY not-reproduced-env: %s ran on a real app context (genesis defaults, not the model\'s closed world) and "%s" held (%s)' % (h, want, r)); sys.exit(5)
    print('REPLAY not-reproduced: %s ran natively to the end, "%s" held (%s)' % (h, want, r)); sys.exit(3)
if r.startswith('not-replayable'):
    print('REPLAY ' + r); sys.exit(4)
# the native run left the symbolic path (an assumption failed or the harness panicked): the replay could not follow the
# model's path - that says nothing about the code, the solver verdict stands
print('REPLAY not-replayable: the native run did not follow the model\'s path (' + r + ')'); sys.exit(4)
