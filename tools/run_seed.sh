#!/bin/bash
# run_seed.sh <id> <property> [check args...]: applies /verif/seeded/<id>/patch.diff to /repo, runs the check, reverts.
set -u
ID="$1"; PROP="$2"; shift 2
cd /repo || exit 2
git diff --quiet || { echo "/repo has uncommitted changes"; exit 2; }
git apply /verif/seeded/$ID/patch.diff || exit 2
cd /verif && ./check "$PROP" "$@" > /tmp/seedrun_$ID.log 2>&1; RC=$?
cd /repo && git checkout -- .
grep "^VIOLATION\|^KNOWN\|^INCONCL\|^SUMMARY" /tmp/seedrun_$ID.log | cut -c1-260
echo "exit=$RC"
# evidence and counterexamples written during this run describe the mutated tree: restore the committed ones
cd /verif && git checkout -- evidence 2>/dev/null
exit $RC
