#!/bin/bash
# confirm_seed.sh <worktree> <id> <pkgs...>
# Confirms a seeded change independently: demo fails with the change, passes without it, existing tests of the packages pass with it.
# Then stores it under /verif/seeded/<id>/ (patch.diff, demo test, meta.json is written by the caller).
set -u
export GOFLAGS=-mod=mod GOPROXY=off GOSUMDB=off GOTOOLCHAIN=local
WT="$1"; ID="$2"; shift 2
cd "$WT" || exit 2
DEMO=$(git status --porcelain | awk '/^\?\?.*_test\.go$/ {print $2}' | head -1)
[ -z "$DEMO" ] && { echo "no untracked demo test found"; exit 2; }
PKG=./$(dirname "$DEMO")
git diff -- x/ app/ types/ > /tmp/confirm_patch.diff
[ -s /tmp/confirm_patch.diff ] || { echo "no source change applied in worktree"; exit 2; }
if grep -q "func (s \*[A-Za-z]*Suite)" "$DEMO"; then
  SUITE=$(grep -rho "func Test[A-Za-z]*(t \*testing.T)" $(dirname "$DEMO")/*_test.go | grep -i suite | head -1 | sed 's/func \(Test[A-Za-z]*\).*/\1/')
  RUN=(-run "${SUITE:-TestKeeperTestSuite}" -testify.m 'Seed|seed|Demo')
else
  RUN=(-run 'Seed|seed|Demo')
fi
echo "== demo: $DEMO  pkg: $PKG  run: ${RUN[*]}"
echo "== 1. demo WITH the change (must fail)"
go test -count=1 "$PKG" "${RUN[@]}" > /tmp/confirm_with.log 2>&1; W=$?
tail -3 /tmp/confirm_with.log
echo "== 2. demo WITHOUT the change (must pass)"
git apply -R /tmp/confirm_patch.diff
go test -count=1 "$PKG" "${RUN[@]}" > /tmp/confirm_without.log 2>&1; WO=$?
tail -3 /tmp/confirm_without.log
git apply /tmp/confirm_patch.diff
echo "== 3. existing tests WITH the change, demo moved aside (must pass)"
mv "$DEMO" /tmp/confirm_demo_test.go.aside
go test -count=1 "$@" > /tmp/confirm_existing.log 2>&1; EX=$?
tail -5 /tmp/confirm_existing.log
mv /tmp/confirm_demo_test.go.aside "$DEMO"
echo "RESULT with=$W without=$WO existing=$EX"
if [ $W -ne 0 ] && [ $WO -eq 0 ] && [ $EX -eq 0 ]; then
  mkdir -p /verif/seeded/$ID
  cp /tmp/confirm_patch.diff /verif/seeded/$ID/patch.diff
  cp "$DEMO" /verif/seeded/$ID/$(basename "$DEMO")
  [ -f meta.json ] && cp meta.json /verif/seeded/$ID/agent_meta.json
  echo "CONFIRMED -> /verif/seeded/$ID"
else
  echo "NOT CONFIRMED"; exit 1
fi
