#!/usr/bin/env python3
# Regenerates /verif/MANIFEST.json from the table below (claimed properties) and properties.jsonl (everything else -> not_applicable).
import json, os
V = '/verif'
base = json.load(open('/root/.vp/BASELINE.json'))
props = [json.loads(l) for l in open(V + '/properties.jsonl')]
TECH = ("symbolic execution of the real code from go/ssa to SMT-LIB2; every assertion decided by z3 for all inputs within stated bounds; "
        "a counterexample is replayed against the natively compiled code before it is reported where the harness is pure or closed-world "
        "(tools/replay.py), otherwise reported as the solver's verdict on the encoding")
LEVEL = ("bounded symbolic verification of the real code: the anchored functions are executed symbolically from go/ssa "
         "(regenerated from /repo's working tree on every run) and every assertion is an SMT query decided for all inputs within the "
         "stated bounds; silent outside the bounds (listed in the evidence file)")
NOTE = ("trusted: go/ssa front end, the executor's instruction semantics, intrinsics for cosmossdk.io/math, the environment model of "
        "DESIGN.md section 4 (store, codec, bank, context), z3 5.1.0 (sampled cross-check on z3 4.8.12); pre-state invariants assumed by "
        "an obligation are asserted by the obligations of the writers")
claimed = {
 'C01': "one inductive step per vault message (all 11 msgServer methods) from an arbitrary pre-state: custody delta = recorded collateral delta, counter, published totals, no foreign position written",
 'C02': "one inductive step per vault message: supply delta = recorded principal delta, debt coins only to user/collector/burn, exact draw-down fee split",
 'C03': "gate lemma on the real ratio arithmetic (decimal grid, symbolic amounts/prices/MinCr) + per-handler plumbing of the gate's arguments, debt floor and ceiling",
 'C06': "amm.Deposit / amm.Withdraw contracts, all operands symbolic up to 10^40, plus pool-state grid; keeper plumbing of a queued withdrawal (formula asked with this pool's reserves / supply / the request's pool coin / the configured withdraw fee rate; exactly its result paid from the pool's reserve; exactly the pool coin burnt; basic pools) Ranged pools with lopsided reserves (ratio rounds to zero): the derived translation keeps the price inside the configured range (three ranges with exact square roots).",
 'C07': "FinishOrder/FinishMMOrder exact settlement from any live order, an already finished order is never settled again, owner can always cancel outside the placement batch, CancelMMOrder cancels and refunds every indexed order for unrelated symbolic app/pair ids, also next to an index entry whose order was already pruned from the store",
 'C04': "one message from an arbitrary pre-state: MsgDeposit / MsgWithdraw queue a request whose recorded coins are exactly what entered the global escrow (pool-coin supply unchanged), Farm / Unfarm move the module account's pool-coin balance by exactly the change of the farmer's recorded (queued + active) amount and never release more than recorded; the end-of-batch maturing step keeps the farmer's total per pool; finishing an order takes only its own escrow. Not covered: execution and refund of requests, pair escrows of orders (C07 covers order settlement), pool disabling, pool creation Two farmers queued in one pool: the maturing step keeps each farmer's own total.",
 'C05': "x/liquidity/amm: one individual fill (FillOrder) from any order state, a buy and a sell filled together (base conserved, quote dust in [0,1]), pro-rata distribution with remainder pass over 2 (quick) / 3 (thorough) orders of one tick on a price grid with symbolic amounts; known finding D21 (sell side can take less than distributed). Not covered: the tick loops of Match / FindMatchableAmountAtSinglePrice, pool order generation, keeper/swap.go application",
 'C08': "books mode, one message from an arbitrary pre-state: Draw (LTV gate sees collateral, principal + interest + new loan and the pair's LTV / e-mode LTV and must agree; pool holds the coins; published borrowed moves with the principal), partial Repay, partial Withdraw (never beyond AvailableToBorrow), Deposit, Lend (new position), CloseLend, CloseBorrow (published borrowed total falls by exactly the closed principal); gate lemma on the real valuation arithmetic (decimal grid). Not covered: Borrow, BorrowAlternate, DepositBorrow, CloseBorrow, liquidation hand-over, the sums over all positions (only the per-step identity), interest accrual writes (C18 covers the formulas) BorrowAlternate on a fresh position: the lend half moves books and custody by the lent amount and hands the borrow half the new position.",
 'C09': "safety: one liquidation decision of the second generation for an arbitrary vault / borrow from an arbitrary pre-state (seized only on the unsafe side of the applicable ratio / threshold, ratio taken over collateral vs principal + interest + closing fee, an unsafe vault is seized or the step fails, exactly the recorded collateral moves, one locked vault); liveness: sweep window functions of both generations (valid sub-range, never wider than the batch, progress), the real second-generation vault and borrow sweeps (window visited completely, continues after a failing item, own next offset stored). Not covered: first-generation (x/liquidation) decisions, auction start",
 'C16': "map-iteration-order independence (2-safety by self-composition: insertion order vs reverse order, all orders for two entries) of amm.DistributeOrderAmountToOrders; the other map ranges named in the property and process-level replay are not covered",
 'C10': "second-generation Dutch auction: one bid from an arbitrary running auction (closed world; pays <= target, receives <= collateral, partial-bid bookkeeping, closing bid empties the auction), conversion lemma (posted price + one unit, monotone), price function falling, restart starts a fresh price line; first-generation lend Dutch auction: one bid pays the counted debt coins and receives the collateral sold plus the bonus on exactly that amount (conversions stubbed); first-generation vault Dutch auction: one bid settles exactly (payment <= remaining target, collateral <= held, custody deltas, owner gets the unsold rest when the target is reached, closed exactly when over, collector covers exactly the shortfall after the bid; conversions stubbed)",
 'C11': "limit bids (deposit/cancel/withdraw with arbitrary denomination and amount in the message), the end-blocker's automatic fill of a resting limit bid, one second-generation English bid and one first-generation surplus bid and debt bid, each from an arbitrary running auction state; the end of a first-generation surplus auction (lot to exactly the standing bidder, or bid returned under shutdown)",
 'C12': "vault, locker, lend/borrow messages and MsgCancelOrder that name a position succeed only for the owner; MsgKillSwitch only for a configured admin; the 20 custom contract-to-chain handlers refuse, on the main and test networks, a sender that is none of the network's governance contracts before the privileged action is reached",
 'C13': "locker books per message, collector net-fee booking for every fee-generating vault message, for the second-generation Dutch close and for the savings paid to lockers on a saving-rate change",
 'C14': "vault and locker messages x circuit breaker / emergency shutdown / cool-off; lend/borrow messages that open, enlarge or draw x circuit breaker; second-generation vault liquidation refuses under shutdown or breaker; first-generation surplus / debt auction activators start nothing under breaker or shutdown. Not covered: lend, second-generation auctions, liquidity",
 'C15': "utils.ApplyFuncIfNoError all-or-nothing with a symbolic fault index; the second-generation vault and borrow sweeps (never panic for any counter / offset / batch size, a failing item neither stops the sweep nor pins it); each sweep item runs on its own cache context; market.BeginBlocker and bandoracle.BeginBlocker never panic; lend / rewards / esm hooks return even when a part of their work panics. Not covered: liquidity, auction, auctionsV2 and liquidation v1 hooks",
 'C20': "closed-world genesis round trips (real ExportGenesis + InitGenesis into a second empty store) of collector, locker, auctionsV2, liquidationsV2, x/liquidation, x/auction, vault (vaults, stable-mint vaults, mappings, count, both id counters), the external reward programs of rewards and the per-app id counters of liquidity: records carried over, id counters carried over or at least not colliding with an existing id. Not covered: the other modules and the tables DESIGN.md 0.4 lists as not exported, continuation workloads",
 'C17': "one step of the price ring from any state satisfying the ring invariant, window sizes 1..6 (12 thorough): no panic, invariant, exact mean, activation, consumers fail when inactive",
 'C18': "lend reward / borrow interest / stable interest: non-negative, zero over zero time, monotone relative to a grid (sandwich) in time, principal and rate",
 'C19': "per-epoch split (allocations sum to the deposit, differ by at most one unit, epochs 1..8, 16 thorough); one epoch trigger of an external-reward gauge from any consistent gauge state (asks for exactly this epoch's allocation, only while active / started / epochs left, count and cumulative amount move with what was distributed); one epoch's distribution never reports or pays more than it was given; a master-pool farmer's child-pool value is the sum over his child pools; one daily epoch of an external vault reward program pays at most the undistributed remainder divided by the days left. Not covered: the float share arithmetic, swap-fee gauges, external reward programs, custody of the rewards account across modules",
}
checks = []
for p in props:
    if p['id'] in claimed:
        checks.append({
            "property_id": p['id'],
            "quick_cmd": "./check %s --tier quick" % p['id'],
            "thorough_cmd": "./check %s --tier thorough" % p['id'],
            "evidence_file": "/verif/evidence/%s.json" % p['id'],
            "replay_cmd_template": "./check %s --replay {path}" % p['id'],
            "engine": "gosym",
            "level_claimed": {"category": "other", "text": LEVEL + ". Covered here: " + claimed[p['id']], "design_ref": "DESIGN.md section 7, " + p['id']},
            "level_note": NOTE,
            "technique": TECH})
na = []
reasons = {}
if os.path.exists(V + '/tools/not_applicable.json'):
    reasons = json.load(open(V + '/tools/not_applicable.json'))
for p in props:
    if p['id'] not in claimed:
        na.append({"property_id": p['id'], "reason": reasons.get(p['id'], "check not built yet (see DESIGN.md section 7 for the plan)")})
m = {"version": 1,
     "setup_cmd": "cd /verif/engine && GOFLAGS=-mod=mod GOPROXY=off GOSUMDB=off GOTOOLCHAIN=local go build -o ../.bin/gosym .",
     "hooks": {"guard": "verif", "enable": "harness files carry //go:build verif and enter through a go/packages overlay (-tags=verif); nothing is written to /repo",
               "baseline_off_cmd": base['cmd'], "source_commits": [], "add_only": True},
     "engines": [{"name": "gosym", "path": "/verif/engine", "serves_properties": sorted(claimed),
                  "kind_free_text": "symbolic executor over go/ssa emitting SMT-LIB2; z3 5.1.0 decides, z3 4.8.12 cross-checks"}],
     "checks": checks,
     "notes": "see DESIGN.md; known_findings.json lists defects found (fixed in /repo by 'fix:' commits or recorded)",
     "not_applicable": na}
json.dump(m, open(V + '/MANIFEST.json', 'w'), indent=1)
print("claimed:", sorted(claimed), "not claimed:", [x['property_id'] for x in na])
