//vp:target x/market/zz_vp_c15_market.go
//vp:props C15 C17
//vp:load ./app
//go:build verif

package market

import (
	abci "github.com/cometbft/cometbft/abci/types"

	assetkeeper "github.com/comdex-official/comdex/x/asset/keeper"
	assettypes "github.com/comdex-official/comdex/x/asset/types"
	bandkeeper "github.com/comdex-official/comdex/x/bandoracle/keeper"
	bandtypes "github.com/comdex-official/comdex/x/bandoracle/types"
	"github.com/comdex-official/comdex/x/market/keeper"
	"github.com/comdex-official/comdex/x/market/types"
	"github.com/comdex-official/comdex/zzvp"
)

const vpUpdatePriceList = "(github.com/comdex-official/comdex/x/market/keeper.Keeper).UpdatePriceList"

// C15 (unwrapped top-level hook code): market.BeginBlocker returns normally for every number of assets (0..N, each
// oracle-priced or not), every oracle result with 0..M rates (fewer, as many, or more rates than oracle-priced
// assets) or no result at all, every validation flag, stored heights, discard flag and block height. The per-asset
// price step (UpdatePriceList) is a contract stub here; its own never-panics obligation from any ring state is
// VP_C17_UpdatePriceListStep. Also: a rate is only ever read for an asset that has one (asset k gets rate k).
func VP_C15_MarketBeginBlockerNeverPanics() {
	zzvp.Stub(vpUpdatePriceList)
	var k keeper.Keeper
	zzvp.Wire(&k)
	var bk bandkeeper.Keeper
	zzvp.Wire(&bk)
	var ak assetkeeper.Keeper
	zzvp.Wire(&ak)
	ctx := zzvp.ClosedCtx().WithBlockHeight(zzvp.AnyInt64())
	zzvp.Assume(ctx.BlockHeight() >= 1)
	maxN := 2
	if zzvp.Thorough() {
		maxN = 4
	}
	n := zzvp.Choose(maxN + 1)
	priced := 0
	for i := 0; i < n; i++ {
		a := assettypes.Asset{Id: uint64(i + 1), Name: "A", Denom: "ua", Decimals: zzvp.AnySdkInt(), IsOraclePriceRequired: zzvp.AnyBool()}
		if zzvp.AnyBool() {
			// a ring for this asset in any shape (the hook only resets or flags it)
			var t types.TimeWeightedAverage
			zzvp.AnyOf(&t)
			t.AssetID = a.Id
			k.SetTwa(ctx, t)
		}
		ak.SetAsset(ctx, a)
		if a.IsOraclePriceRequired {
			priced++
		}
	}
	// optional oracle records: either none of them is stored (fresh chain: every getter sees a missing record) or all
	// of them are, with arbitrary contents
	id := int64(0)
	if zzvp.AnyBool() {
		bk.SetOracleValidationResult(ctx, zzvp.AnyBool())
		bk.SetLastBlockHeight(ctx, zzvp.AnyInt64())
		bk.SetDiscardData(ctx, bandtypes.DiscardData{BlockHeight: zzvp.AnyInt64(), DiscardBool: zzvp.AnyBool()})
		id = zzvp.AnyInt64()
		bk.SetLastFetchPriceID(ctx, bandtypes.OracleRequestID(id))
		bk.SetFetchPriceMsg(ctx, bandtypes.MsgFetchPriceData{OracleScriptID: zzvp.AnyUint64(), TwaBatchSize: zzvp.AnyUint64(), AcceptedHeightDiff: zzvp.AnyInt64()})
	}
	m := zzvp.Choose(maxN + 2) // 0 = no stored result, j+1 = result with j rates
	if m > 0 {
		rates := make([]uint64, m-1)
		for i := range rates {
			rates[i] = zzvp.AnyUint64()
		}
		bk.SetFetchPriceResult(ctx, bandtypes.OracleRequestID(id), bandtypes.FetchPriceResult{Rates: rates})
	}
	panicked := zzvp.Try(func() { BeginBlocker(ctx, abci.RequestBeginBlock{}, k, bk, ak) })
	zzvp.Reach("begin-blocker-returned")
	zzvp.Assert(!panicked, "market-begin-blocker-never-panics")
	if panicked {
		return
	}
	calls := zzvp.SpyCount(vpUpdatePriceList)
	rates := 0
	if m > 0 {
		rates = m - 1
	}
	zzvp.Assert(calls <= priced && calls <= rates, "a-price-step-only-for-an-oracle-priced-asset-that-has-a-rate")
	if calls > 0 {
		zzvp.Reach("prices-fed")
	}
}
