//vp:target x/liquidity/keeper/zz_vp_c12.go
//vp:load ./app
//go:build verif

package keeper

import (
	"github.com/comdex-official/comdex/x/liquidity/types"
	"github.com/comdex-official/comdex/zzvp"
)

// C12 (orders): cancelling an order that somebody else placed is refused (contrapositive form: the signer is assumed
// not to be the stored orderer; arbitrary pre-state).
func VP_C12_LiquidityMsgCancelOrder() {
	var k Keeper
	zzvp.Wire(&k)
	ctx := zzvp.Ctx()
	msg := types.MsgCancelOrder{Orderer: zzvp.AnyString(), AppId: zzvp.AnyUint64(), PairId: zzvp.AnyUint64(), OrderId: zzvp.AnyUint64()}
	o, found := k.GetOrder(ctx, msg.AppId, msg.PairId, msg.OrderId)
	zzvp.Assume(!zzvp.And(found, o.Orderer == msg.Orderer))
	err := k.CancelOrder(ctx, &msg)
	zzvp.Reach("handler-returned")
	zzvp.Assert(err != nil, "a-signer-who-is-not-the-orderer-is-refused")
}
