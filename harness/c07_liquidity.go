//vp:target x/liquidity/keeper/zz_vp_c07.go
//vp:props C07 C04
//vp:load ./app
//go:build verif

package keeper

import (
	sdkmath "cosmossdk.io/math"
	sdk "github.com/cosmos/cosmos-sdk/types"

	"github.com/comdex-official/comdex/x/liquidity/types"
	"github.com/comdex-official/comdex/zzvp"
)

// vpLiveOrder: an arbitrary stored order that is still live (0 <= remaining <= offer, same denomination).
func vpLiveOrder(appID, pairID, id uint64, mm bool) types.Order {
	var o types.Order
	zzvp.AnyOf(&o)
	o.AppId, o.PairId, o.Id = appID, pairID, id
	if mm {
		o.Type = types.OrderTypeMM
	} else {
		zzvp.Assume(o.Type != types.OrderTypeMM)
	}
	zzvp.Assume(o.Status.CanBeCanceled())
	zzvp.Assume(zzvp.And(o.RemainingOfferCoin.Denom == o.OfferCoin.Denom, o.RemainingOfferCoin.Amount.LTE(o.OfferCoin.Amount)))
	zzvp.Assume(o.OfferCoin.Amount.LTE(sdkmath.NewIntWithDecimal(1, 40))) // module amount bound
	return o
}

type vpPairW struct {
	k        Keeper
	ctx      sdk.Context
	pair     types.Pair
	params   types.GenericParams
	escrow   sdk.AccAddress
	feeAddr  sdk.AccAddress
}

// vpPairWorld: the pair and parameter records of (appID, pairID) exist, are stored under their own ids, and the pair's
// escrow and fee-collector accounts are two accounts different from every user's.
func vpPairWorld(appID, pairID uint64, orderer sdk.AccAddress) *vpPairW {
	zzvp.Option("overflow-as-obligation")
	w := &vpPairW{}
	zzvp.Wire(&w.k)
	w.ctx = zzvp.Ctx()
	var ok bool
	w.pair, ok = w.k.GetPair(w.ctx, appID, pairID)
	zzvp.Assume(ok)
	zzvp.Assume(zzvp.And(w.pair.Id == pairID, w.pair.AppId == appID))
	var okP bool
	w.params, okP = w.k.GetGenericLiquidityParams(w.ctx, appID)
	zzvp.Assume(okP)
	zzvp.Assume(zzvp.And(w.params.AppId == appID, !w.params.SwapFeeRate.IsNegative(), w.params.SwapFeeRate.LT(sdk.OneDec())))
	var e1, e2 error
	w.escrow, e1 = sdk.AccAddressFromBech32(w.pair.EscrowAddress)
	w.feeAddr, e2 = sdk.AccAddressFromBech32(w.pair.SwapFeeCollectorAddress)
	zzvp.Assume(zzvp.And(e1 == nil, e2 == nil))
	zzvp.Assume(zzvp.And(!w.escrow.Equals(w.feeAddr), !w.escrow.Equals(orderer), !w.feeAddr.Equals(orderer)))
	return w
}

// C07: ending an order (completed / expired / cancelled) returns exactly the unspent offer coin plus the part of the
// fee reserve not attributable to the executed portion, forwards exactly the fee of the executed portion, and takes
// exactly remaining + fee reserve out of escrow. Market-making orders carry no fee reserve.
func vpC07Finish(mm bool) {
	appID, pairID, id := zzvp.AnyUint64(), zzvp.AnyUint64(), zzvp.AnyUint64()
	o := vpLiveOrder(appID, pairID, id, mm)
	orderer, errO := sdk.AccAddressFromBech32(o.Orderer)
	zzvp.Assume(errO == nil)
	w := vpPairWorld(appID, pairID, orderer)
	k, ctx := w.k, w.ctx
	k.SetOrder(ctx, appID, o)
	status := []types.OrderStatus{types.OrderStatusCanceled, types.OrderStatusExpired, types.OrderStatusCompleted}[zzvp.Choose(3)]
	zzvp.Mark()
	if k.FinishOrder(ctx, o, status) != nil {
		return
	}
	zzvp.Reach("order-finished")
	denom := o.OfferCoin.Denom
	rem, offer := zzvp.ZI(o.RemainingOfferCoin.Amount), zzvp.ZI(o.OfferCoin.Amount)
	feeOffer, feeExec := zzvp.ZN(0), zzvp.ZN(0)
	if !mm {
		feeOffer = zzvp.ZI(CalculateSwapFeeAmount(ctx, w.params, o.OfferCoin.Amount))
		feeExec = zzvp.ZI(CalculateSwapFeeAmount(ctx, w.params, o.OfferCoin.Amount.Sub(o.RemainingOfferCoin.Amount)))
	}
	dUser := zzvp.ZI(zzvp.BalanceDelta(orderer, denom))
	dEsc := zzvp.ZI(zzvp.BalanceDelta(w.escrow, denom))
	dFee := zzvp.ZI(zzvp.BalanceDelta(w.feeAddr, denom))
	zzvp.Assert(dUser.Equal(rem.Add(feeOffer).Sub(feeExec)), "refund=remaining+unused-fee-reserve")
	zzvp.Assert(dFee.Equal(feeExec), "forwarded-fee=fee-of-executed-portion")
	zzvp.Assert(dEsc.Equal(rem.Add(feeOffer).Neg()), "nothing-of-the-order-stays-in-escrow")
	zzvp.Assert(zzvp.And(!feeExec.IsNegative(), feeExec.LTE(feeOffer), offer.GTE(rem)), "fee-of-executed-portion-within-reserve")
	post, found := k.GetOrder(ctx, appID, pairID, id)
	zzvp.Assert(zzvp.And(found, post.Status == status), "order-record-carries-the-final-status")
	zzvp.Assert(zzvp.OnlyWritten("liquidity", types.OrderKeyPrefix, types.GetOrderKey(appID, pairID, id)), "no-other-order-written")
}

// C07 "settles exactly once": an order that has already been finished (completed, cancelled or expired) is not settled
// again, whoever asks and with whatever final status (the end-of-batch sweep visits completed orders once more).
func vpC07FinishedStaysFinished(mm bool) {
	appID, pairID, id := zzvp.AnyUint64(), zzvp.AnyUint64(), zzvp.AnyUint64()
	var o types.Order
	zzvp.AnyOf(&o)
	o.AppId, o.PairId, o.Id = appID, pairID, id
	if mm {
		o.Type = types.OrderTypeMM
	} else {
		zzvp.Assume(o.Type != types.OrderTypeMM)
	}
	o.Status = []types.OrderStatus{types.OrderStatusCompleted, types.OrderStatusCanceled, types.OrderStatusExpired}[zzvp.Choose(3)]
	zzvp.Assume(zzvp.And(o.RemainingOfferCoin.Denom == o.OfferCoin.Denom, o.RemainingOfferCoin.Amount.LTE(o.OfferCoin.Amount)))
	zzvp.Assume(o.OfferCoin.Amount.LTE(sdkmath.NewIntWithDecimal(1, 40)))
	orderer, errO := sdk.AccAddressFromBech32(o.Orderer)
	zzvp.Assume(errO == nil)
	w := vpPairWorld(appID, pairID, orderer)
	k, ctx := w.k, w.ctx
	k.SetOrder(ctx, appID, o)
	status := []types.OrderStatus{types.OrderStatusCanceled, types.OrderStatusExpired, types.OrderStatusCompleted}[zzvp.Choose(3)]
	zzvp.Mark()
	err := k.FinishOrder(ctx, o, status)
	zzvp.Reach("second-finish-returned")
	_ = err
	zzvp.Assert(zzvp.BankWritesSinceMark() == 0, "a-finished-order-moves-no-coins-again")
	post, found := k.GetOrder(ctx, appID, pairID, id)
	zzvp.Assert(zzvp.And(found, post.Status == o.Status), "a-finished-order-keeps-its-final-status")
}

func VP_C07_FinishedOrderIsNotSettledAgain()   { vpC07FinishedStaysFinished(false) }
func VP_C07_FinishedMMOrderIsNotSettledAgain() { vpC07FinishedStaysFinished(true) }

func VP_C07_FinishOrder()   { vpC07Finish(false) }
func VP_C07_FinishMMOrder() { vpC07Finish(true) }

// C04 (pair escrow backs the live orders): the same step seen from the escrow's side - ending an order takes exactly
// its remaining offer coin (plus its fee reserve) out of the pair escrow, never coins that back other orders.
func VP_C04_FinishOrderTakesOnlyItsOwnEscrow()   { vpC07Finish(false) }
func VP_C04_FinishMMOrderTakesOnlyItsOwnEscrow() { vpC07Finish(true) }

// C07: an order that is not in its placement batch can always be cancelled by its owner (given that its escrow is
// funded, which is C04's invariant), and afterwards it is Cancelled.
func VP_C07_OwnerCanAlwaysCancel() {
	appID, pairID, id := zzvp.AnyUint64(), zzvp.AnyUint64(), zzvp.AnyUint64()
	o := vpLiveOrder(appID, pairID, id, zzvp.Choose(2) == 1)
	orderer, errO := sdk.AccAddressFromBech32(o.Orderer)
	zzvp.Assume(errO == nil)
	w := vpPairWorld(appID, pairID, orderer)
	k, ctx := w.k, w.ctx
	_, okApp := k.assetKeeper.GetApp(ctx, appID)
	zzvp.Assume(okApp)
	k.SetOrder(ctx, appID, o)
	zzvp.Assume(o.BatchId != w.pair.CurrentBatchId)
	// C04: the pair's escrow holds the remaining offer coin and the fee reserve of its live orders
	reserve := CalculateSwapFeeAmount(ctx, w.params, o.OfferCoin.Amount)
	zzvp.Assume(zzvp.Balance(ctx, w.escrow, o.OfferCoin.Denom).GTE(o.RemainingOfferCoin.Amount.Add(reserve)))
	msg := types.NewMsgCancelOrder(appID, orderer, pairID, id)
	zzvp.Assume(msg.ValidateBasic() == nil)
	err := k.CancelOrder(ctx, msg)
	zzvp.Reach("cancel-returned")
	zzvp.Assert(err == nil, "owner-can-cancel-outside-placement-batch")
	post, found := k.GetOrder(ctx, appID, pairID, id)
	zzvp.Assert(zzvp.Implies(err == nil, zzvp.And(found, post.Status == types.OrderStatusCanceled)), "cancelled-order-is-marked-cancelled")
}

// C07: cancelling market-making orders cancels and refunds EVERY previously placed market-making order of that owner
// in that pair, for all combinations of app id and pair id (ids are unrelated symbolic values).
func VP_C07_CancelMMOrderCancelsEveryIndexedOrder() {
	appID, pairID := zzvp.AnyUint64(), zzvp.AnyUint64()
	n := 1
	if zzvp.Thorough() {
		n = 2
	}
	ordererStr := zzvp.AnyString()
	orderer, errO := sdk.AccAddressFromBech32(ordererStr)
	zzvp.Assume(errO == nil)
	w := vpPairWorld(appID, pairID, orderer)
	k, ctx := w.k, w.ctx
	var ids []uint64
	var orders []types.Order
	for i := 0; i < n; i++ {
		id := zzvp.AnyUint64()
		for _, p := range ids {
			zzvp.Assume(p != id)
		}
		o := vpLiveOrder(appID, pairID, id, true)
		o.Orderer = ordererStr
		zzvp.Assume(o.BatchId != w.pair.CurrentBatchId)
		zzvp.Assume(o.RemainingOfferCoin.Denom == w.pair.QuoteCoinDenom)
		k.SetOrder(ctx, appID, o)
		ids = append(ids, id)
		orders = append(orders, o)
	}
	k.SetMMOrderIndex(ctx, appID, types.MMOrderIndex{Orderer: ordererStr, AppId: appID, PairId: pairID, OrderIds: ids})
	msg := types.NewMsgCancelMMOrder(appID, orderer, pairID)
	zzvp.Assume(msg.ValidateBasic() == nil)
	zzvp.Mark()
	_, err := k.CancelMMOrder(ctx, msg)
	if err != nil {
		return
	}
	zzvp.Reach("cancel-mm-succeeded")
	total := zzvp.ZN(0)
	allCancelled := true
	for i, id := range ids {
		post, found := k.GetOrder(ctx, appID, pairID, id)
		allCancelled = zzvp.And(allCancelled, found, post.Status == types.OrderStatusCanceled)
		total = total.Add(zzvp.ZI(orders[i].RemainingOfferCoin.Amount))
	}
	zzvp.Assert(allCancelled, "every-indexed-mm-order-cancelled")
	zzvp.Assert(zzvp.ZI(zzvp.BalanceDelta(orderer, w.pair.QuoteCoinDenom)).Equal(total), "every-indexed-mm-order-refunded")
	_, still := k.GetMMOrderIndex(ctx, orderer, appID, pairID)
	zzvp.Assert(!still, "mm-index-cleared")
}

// C07 (market-making orders, index with a pruned entry): an order of the owner's index that was completely filled has
// been deleted from the store by the time the owner cancels; the live order listed next to it - before or after the
// pruned id - is still cancelled and refunded, and the index is cleared.
func VP_C07_CancelMMOrderSkipsPrunedOrders() {
	appID, pairID := zzvp.AnyUint64(), zzvp.AnyUint64()
	ordererStr := zzvp.AnyString()
	orderer, errO := sdk.AccAddressFromBech32(ordererStr)
	zzvp.Assume(errO == nil)
	w := vpPairWorld(appID, pairID, orderer)
	k, ctx := w.k, w.ctx
	id, gone := zzvp.AnyUint64(), zzvp.AnyUint64()
	zzvp.Assume(id != gone)
	o := vpLiveOrder(appID, pairID, id, true)
	o.Orderer = ordererStr
	zzvp.Assume(o.BatchId != w.pair.CurrentBatchId)
	zzvp.Assume(o.RemainingOfferCoin.Denom == w.pair.QuoteCoinDenom)
	k.SetOrder(ctx, appID, o)
	_, foundGone := k.GetOrder(ctx, appID, pairID, gone)
	zzvp.Assume(!foundGone)
	ids := []uint64{gone, id}
	if zzvp.Choose(2) == 1 {
		ids = []uint64{id, gone}
	}
	k.SetMMOrderIndex(ctx, appID, types.MMOrderIndex{Orderer: ordererStr, AppId: appID, PairId: pairID, OrderIds: ids})
	msg := types.NewMsgCancelMMOrder(appID, orderer, pairID)
	zzvp.Assume(msg.ValidateBasic() == nil)
	zzvp.Mark()
	_, err := k.CancelMMOrder(ctx, msg)
	if err != nil {
		return
	}
	zzvp.Reach("cancel-mm-succeeded")
	post, found := k.GetOrder(ctx, appID, pairID, id)
	zzvp.Assert(zzvp.And(found, post.Status == types.OrderStatusCanceled), "live-mm-order-next-to-a-pruned-one-cancelled")
	zzvp.Assert(zzvp.ZI(zzvp.BalanceDelta(orderer, w.pair.QuoteCoinDenom)).Equal(zzvp.ZI(o.RemainingOfferCoin.Amount)), "live-mm-order-next-to-a-pruned-one-refunded")
	_, still := k.GetMMOrderIndex(ctx, orderer, appID, pairID)
	zzvp.Assert(!still, "mm-index-cleared")
}
