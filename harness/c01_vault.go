//vp:target x/vault/keeper/zz_vp_c01.go
//vp:load ./app
//go:build verif

package keeper

import (
	"github.com/comdex-official/comdex/x/vault/types"
	"github.com/comdex-official/comdex/zzvp"
)

// C01, one inductive step per vault message: from an arbitrary pre-state satisfying the module invariants, a successful
// message changes custody, the vault counter and the product's published totals by exactly the change of the
// position it names, and writes no other position.
func vpC01(h int) {
	w := vpVaultWorld(true)
	k, ctx := w.k, w.ctx
	zzvp.Mark()
	if w.vpVaultCall(h) != nil {
		return
	}
	zzvp.Reach("handler-succeeded")
	dIn, dOut, created, deleted := w.vpPositionDeltas(h)
	// (a) custody of the collateral denomination moves with the recorded collateral; the debt denomination only passes through
	zzvp.Assert(zzvp.ZI(zzvp.BalanceDelta(vpVaultModule(), w.in.Denom)).Equal(dIn), "custody-delta=recorded-collateral-delta")
	zzvp.Assert(zzvp.BalanceDelta(vpVaultModule(), w.out.Denom).IsZero(), "no-debt-coins-stay-in-custody")
	// (b) vault counter
	lenPost := k.GetLengthOfVault(ctx)
	zzvp.Assert(zzvp.Implies(created, lenPost == w.lenPre+1), "counter+1-on-create")
	zzvp.Assert(zzvp.Implies(deleted, zzvp.And(lenPost == w.lenPre-1, w.lenPre > 0)), "counter-1-on-close")
	zzvp.Assert(zzvp.Implies(zzvp.And(!created, !deleted), lenPost == w.lenPre), "counter-unchanged-otherwise")
	// (c) published totals of the product
	pm, foundM := k.GetAppExtendedPairVaultMappingData(ctx, w.appID, w.extID)
	preC := zzvp.IteZ(w.hasM, zzvp.ZI(w.m.CollateralLockedAmount), zzvp.ZN(0))
	preT := zzvp.IteZ(w.hasM, zzvp.ZI(w.m.TokenMintedAmount), zzvp.ZN(0))
	if h == vpHInterestCalc {
		zzvp.Assert(zzvp.And(dIn.IsZero(), dOut.IsZero()), "interest-calc-moves-no-principal")
	} else {
		zzvp.Assert(foundM, "published-record-exists")
		zzvp.Assert(zzvp.ZI(pm.CollateralLockedAmount).Sub(preC).Equal(dIn), "published-collateral-delta")
		zzvp.Assert(zzvp.ZI(pm.TokenMintedAmount).Sub(preT).Equal(dOut), "published-minted-delta")
	}
	// (d) no other position is written
	switch h {
	case vpHCreate:
		zzvp.Assert(zzvp.OnlyWritten(vpStore, types.VaultKeyPrefix, types.VaultKey(w.newID)), "only-the-new-vault-written")
		zzvp.Assert(zzvp.OnlyWritten(vpStore, types.StableMintVaultKeyPrefix), "no-stable-vault-written")
	case vpHCreateStable:
		zzvp.Assert(zzvp.OnlyWritten(vpStore, types.StableMintVaultKeyPrefix, types.StableMintVaultKey(w.newSID)), "only-the-new-stable-vault-written")
		zzvp.Assert(zzvp.OnlyWritten(vpStore, types.VaultKeyPrefix), "no-vault-written")
	case vpHDepositStable, vpHWithdrawStable:
		zzvp.Assert(zzvp.OnlyWritten(vpStore, types.StableMintVaultKeyPrefix, types.StableMintVaultKey(w.vaultID)), "only-the-named-stable-vault-written")
		zzvp.Assert(zzvp.OnlyWritten(vpStore, types.VaultKeyPrefix), "no-vault-written")
	default:
		zzvp.Assert(zzvp.OnlyWritten(vpStore, types.VaultKeyPrefix, types.VaultKey(w.vaultID)), "only-the-named-vault-written")
		zzvp.Assert(zzvp.OnlyWritten(vpStore, types.StableMintVaultKeyPrefix), "no-stable-vault-written")
	}
	zzvp.Assert(zzvp.OnlyWritten(vpStore, types.AppExtendedPairVaultMappingKeyPrefix, types.AppExtendedPairVaultMappingKey(w.appID, w.extID)), "only-this-products-totals-written")
	// invariants re-established (what vpVaultWorld assumes about a position and its product)
	if h == vpHCreate {
		post, _ := k.GetVault(ctx, w.newID)
		zzvp.Assert(zzvp.And(created, post.Id == w.newID, post.AppId == w.ext.AppId, post.ExtendedPairVaultID == w.extID), "inv:new-vault-belongs-to-its-product")
		zzvp.Assert(k.GetIDForVault(ctx) == w.newID, "inv:id-counter-advanced")
	}
	if h == vpHCreateStable {
		post, _ := k.GetStableMintVault(ctx, w.newSID)
		zzvp.Assert(zzvp.And(post.Id == w.newSID, post.AppId == w.ext.AppId, post.ExtendedPairVaultID == w.extID), "inv:new-stable-vault-belongs-to-its-product")
		zzvp.Assert(k.GetIDForStableVault(ctx) == w.newSID, "inv:stable-id-counter-advanced")
	}
}

func VP_C01_MsgCreate()             { vpC01(vpHCreate) }
func VP_C01_MsgDeposit()            { vpC01(vpHDeposit) }
func VP_C01_MsgWithdraw()           { vpC01(vpHWithdraw) }
func VP_C01_MsgDraw()               { vpC01(vpHDraw) }
func VP_C01_MsgRepay()              { vpC01(vpHRepay) }
func VP_C01_MsgClose()              { vpC01(vpHClose) }
func VP_C01_MsgDepositAndDraw()     { vpC01(vpHDepositAndDraw) }
func VP_C01_MsgCreateStableMint()   { vpC01(vpHCreateStable) }
func VP_C01_MsgDepositStableMint()  { vpC01(vpHDepositStable) }
func VP_C01_MsgWithdrawStableMint() { vpC01(vpHWithdrawStable) }
func VP_C01_MsgVaultInterestCalc()  { vpC01(vpHInterestCalc) }
