//vp:target x/auction/keeper/zz_vp_c10.go
//vp:load ./app
//go:build verif

package keeper

import (
	sdk "github.com/cosmos/cosmos-sdk/types"
	authtypes "github.com/cosmos/cosmos-sdk/x/auth/types"

	auctiontypes "github.com/comdex-official/comdex/x/auction/types"
	lendkeeper "github.com/comdex-official/comdex/x/lend/keeper"
	"github.com/comdex-official/comdex/zzvp"
)

const (
	vpV1Conv  = "(github.com/comdex-official/comdex/x/vault/keeper.Keeper).GetAmountOfOtherToken"
	vpV1Value = "(github.com/comdex-official/comdex/x/auction/keeper.Keeper).CalcDollarValueForToken"
)

// C10 (first-generation Dutch auction of a lend position, one bid from an arbitrary running auction and pre-state):
// the bidder receives the collateral actually SOLD to him - his bid, or, when the bid is clipped to the remaining
// debt target, the collateral that target buys at the posted price - plus the advertised bonus on exactly that
// amount, and pays exactly the debt coins counted for it; the auction's books move by the same amounts. The price
// conversions are contract stubs (any value; the same arguments give the same value): the posted-price bound itself is
// the conversion lemma VP_C10_Conversion*. Bonus rates from a grid (the product with the sold amount is then linear).
func VP_C10_V1LendDutchBidPaysForWhatIsSold() {
	zzvp.Option("overflow-as-obligation")
	zzvp.Stub(vpV1Conv)
	zzvp.Stub(vpV1Value)
	// GetLendAuctionType (which auction-mapping id means "dutch") is a contract stub as well: the same arguments give the
	// same type string, so the harness's read of the auction and the handler's read address the same record.
	for _, f := range []string{"CreateNewDutchLendBid", "CloseDutchLendAuction", "GetLendAuctionType"} {
		zzvp.Stub("(github.com/comdex-official/comdex/x/auction/keeper.Keeper)." + f)
	}
	zzvp.Stub("(github.com/comdex-official/comdex/x/lend/keeper.Keeper).UpdateReserveBalances")
	var k Keeper
	zzvp.Wire(&k)
	var lk lendkeeper.Keeper
	zzvp.Wire(&lk)
	ctx := zzvp.Ctx()
	appID, mapID, auctionID := zzvp.AnyUint64(), zzvp.AnyUint64(), zzvp.AnyUint64()
	a, errA := k.GetDutchLendAuction(ctx, appID, mapID, auctionID)
	zzvp.Assume(errA == nil)
	zzvp.Assume(zzvp.And(a.AppId == appID, a.AuctionMappingId == mapID, a.AuctionId == auctionID, a.OutflowTokenCurrentAmount.Denom == a.OutflowTokenInitAmount.Denom,
		a.InflowTokenCurrentAmount.Denom == a.InflowTokenTargetAmount.Denom, a.OutflowTokenInitAmount.Denom != a.InflowTokenTargetAmount.Denom,
		a.InflowTokenCurrentAmount.Amount.LTE(a.InflowTokenTargetAmount.Amount)))
	lim := sdk.NewInt(1 << 60)
	zzvp.Assume(zzvp.And(a.OutflowTokenCurrentAmount.Amount.LTE(lim), a.InflowTokenTargetAmount.Amount.LTE(lim)))
	lv, _ := k.liquidation.GetLockedVault(ctx, appID, a.LockedVaultId)
	pair, _ := lk.GetLendPair(ctx, lv.ExtendedPairId)
	rates, _ := lk.GetAssetRatesParams(ctx, pair.AssetIn)
	bonus := sdk.MustNewDecFromStr([]string{"0.05", "0", "0.1"}[zzvp.Choose(3)])
	zzvp.Assume(rates.LiquidationBonus.Equal(bonus))
	bidder := zzvp.AnyAddr()
	owner, errO := sdk.AccAddressFromBech32(lv.Owner)
	zzvp.Assume(zzvp.Or(errO != nil, !owner.Equals(bidder)))
	// the bidder is a user: neither the auction module account nor the pool the debt coins are returned to
	outPool, _ := lk.GetPool(ctx, pair.AssetOutPoolID)
	zzvp.Assume(!bidder.Equals(authtypes.NewModuleAddress(auctiontypes.ModuleName)))
	zzvp.Assume(!bidder.Equals(authtypes.NewModuleAddress(outPool.ModuleName)))
	bid := sdk.Coin{Denom: zzvp.AnyString(), Amount: zzvp.AnySdkInt()}
	zzvp.Assume(bid.Amount.IsPositive() && bid.Amount.LTE(lim))
	collDenom, debtDenom := a.OutflowTokenInitAmount.Denom, a.InflowTokenTargetAmount.Denom
	zzvp.Mark()
	err := k.PlaceLendDutchAuctionBid(ctx, appID, mapID, auctionID, bidder, bid)
	if err != nil {
		return
	}
	zzvp.Reach("bid-accepted")
	n := zzvp.SpyCount(vpV1Conv)
	zzvp.Assert(n == 1 || n == 2, "one-conversion-or-two-when-clipped")
	sold := zzvp.ZI(bid.Amount)
	paid := zzvp.SpyResZ(vpV1Conv, 0, 1)
	if n == 2 {
		zzvp.Reach("bid-clipped-to-the-target")
		sold = zzvp.SpyResZ(vpV1Conv, 1, 1)
		paid = zzvp.ZI(a.InflowTokenTargetAmount.Amount.Sub(a.InflowTokenCurrentAmount.Amount))
	}
	got := zzvp.ZI(zzvp.BalanceDelta(bidder, collDenom))
	// got = sold + trunc(sold * bonus):  (got - sold) * 1e18 <= sold*bonus < (got - sold + 1) * 1e18
	e18 := zzvp.Pow10(18)
	sb := sold.Mul(zzvp.ZD(bonus))
	zzvp.Assert(zzvp.And(got.Sub(sold).Mul(e18).LTE(sb), got.Sub(sold).Add(zzvp.ZN(1)).Mul(e18).GT(sb)), "bidder-receives-what-was-sold-plus-the-bonus-on-it")
	zzvp.Assert(zzvp.ZI(zzvp.BalanceDelta(bidder, debtDenom)).Equal(paid.Neg()), "bidder-pays-exactly-the-counted-debt-coins")
}
