//vp:target x/vault/keeper/zz_vp_c13.go
//vp:load ./app
//go:build verif

package keeper

import (
	collectorkeeper "github.com/comdex-official/comdex/x/collector/keeper"
	collectortypes "github.com/comdex-official/comdex/x/collector/types"
	"github.com/comdex-official/comdex/zzvp"
)

// C13 (collector side, vault operations that generate fees): whatever a vault message pays into the fee collector's
// custody account is booked, in the same step, under the net-fee record of that app and of the asset the coins are
// denominated in; the record never goes negative and no other app's / asset's record is touched.
func vpC13Vault(h int) {
	w := vpVaultWorld(true)
	var ck collectorkeeper.Keeper
	zzvp.Wire(&ck)
	pre, hasPre := ck.GetNetFeeCollectedData(w.ctx, w.appID, w.pair.AssetOut)
	zzvp.Assume(zzvp.Implies(hasPre, zzvp.And(pre.AppId == w.appID, pre.AssetId == w.pair.AssetOut)))
	zzvp.Mark()
	if w.vpVaultCall(h) != nil {
		return
	}
	zzvp.Reach("handler-succeeded")
	post, _ := ck.GetNetFeeCollectedData(w.ctx, w.appID, w.pair.AssetOut)
	dRec := zzvp.ZI(post.NetFeesCollected).Sub(zzvp.IteZ(hasPre, zzvp.ZI(pre.NetFeesCollected), zzvp.ZN(0)))
	dCust := zzvp.ZI(zzvp.BalanceDelta(vpCollectorModule(), w.out.Denom))
	zzvp.Assert(dRec.Equal(dCust), "net-fee-record-delta=collector-custody-delta")
	zzvp.Assert(!zzvp.ZI(post.NetFeesCollected).IsNegative(), "net-fees-never-negative")
	zzvp.Assert(zzvp.BalanceDelta(vpCollectorModule(), w.in.Denom).IsZero(), "collector-receives-only-the-debt-denomination")
	zzvp.Assert(zzvp.OnlyWritten("collector", collectortypes.NetFeeCollectedDataPrefix, collectortypes.NetFeeCollectedDataKey(w.appID, w.pair.AssetOut)), "only-this-app-and-assets-net-fee-record-written")
}

func VP_C13_VaultMsgCreate()            { vpC13Vault(vpHCreate) }
func VP_C13_VaultMsgDraw()              { vpC13Vault(vpHDraw) }
func VP_C13_VaultMsgRepay()             { vpC13Vault(vpHRepay) }
func VP_C13_VaultMsgClose()             { vpC13Vault(vpHClose) }
func VP_C13_VaultMsgCreateStableMint()  { vpC13Vault(vpHCreateStable) }
func VP_C13_VaultMsgDepositStableMint() { vpC13Vault(vpHDepositStable) }
func VP_C13_VaultMsgWithdrawStableMint() { vpC13Vault(vpHWithdrawStable) }
