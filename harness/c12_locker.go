//vp:target x/locker/keeper/zz_vp_c12.go
//vp:load ./app
//go:build verif

package keeper

import "github.com/comdex-official/comdex/zzvp"

// C12 (lockers): deposit into, withdrawal from and closing of a locker succeed only for the locker's depositor.
func vpC12Locker(h int) {
	w := vpLockerWorld()
	zzvp.Mark()
	if w.vpLockerCall(h) != nil {
		return
	}
	zzvp.Reach("handler-succeeded")
	zzvp.Assert(zzvp.And(w.hasL, w.l.Depositor == w.from), "only-the-depositor-can-act-on-a-locker")
}

func VP_C12_LockerMsgDepositAsset()  { vpC12Locker(vpLDeposit) }
func VP_C12_LockerMsgWithdrawAsset() { vpC12Locker(vpLWithdraw) }
func VP_C12_LockerMsgCloseLocker()   { vpC12Locker(vpLClose) }
