//vp:target x/vault/keeper/zz_vp_c14.go
//vp:load ./app
//go:build verif

package keeper

import "github.com/comdex-official/comdex/zzvp"

// C14 (vault messages): with the app's circuit breaker on no vault message succeeds; after emergency shutdown nothing
// mints new debt; collateral can be withdrawn only until the cool-off period ends.
func vpC14(h int) {
	w := vpVaultWorld(true)
	now := w.ctx.BlockTime()
	zzvp.Mark()
	if w.vpVaultCall(h) != nil {
		return
	}
	zzvp.Reach("handler-succeeded")
	if h != vpHInterestCalc {
		zzvp.Assert(!w.breaker, "refused-while-circuit-breaker-on")
	}
	switch h {
	case vpHCreate, vpHDraw, vpHDepositAndDraw, vpHCreateStable, vpHDepositStable:
		zzvp.Assert(!w.esmOn, "no-new-debt-after-emergency-shutdown")
	case vpHWithdraw:
		zzvp.Assert(zzvp.Implies(w.esmOn, !now.After(w.esm.EndTime)), "withdraw-only-until-cool-off-ends")
	}
}

func VP_C14_VaultMsgCreate()             { vpC14(vpHCreate) }
func VP_C14_VaultMsgDeposit()            { vpC14(vpHDeposit) }
func VP_C14_VaultMsgWithdraw()           { vpC14(vpHWithdraw) }
func VP_C14_VaultMsgDraw()               { vpC14(vpHDraw) }
func VP_C14_VaultMsgRepay()              { vpC14(vpHRepay) }
func VP_C14_VaultMsgClose()              { vpC14(vpHClose) }
func VP_C14_VaultMsgDepositAndDraw()     { vpC14(vpHDepositAndDraw) }
func VP_C14_VaultMsgCreateStableMint()   { vpC14(vpHCreateStable) }
func VP_C14_VaultMsgDepositStableMint()  { vpC14(vpHDepositStable) }
func VP_C14_VaultMsgWithdrawStableMint() { vpC14(vpHWithdrawStable) }
