//vp:target x/liquidity/keeper/zz_vp_c20.go
//vp:load ./app
//go:build verif

package keeper

import (
	assetkeeper "github.com/comdex-official/comdex/x/asset/keeper"
	assettypes "github.com/comdex-official/comdex/x/asset/types"
	"github.com/comdex-official/comdex/x/liquidity/types"
	"github.com/comdex-official/comdex/zzvp"
)

// C20 (liquidity module, per-app id counters): export + import into an empty store carries the last pair id and the
// last pool id of an app over, each to its own counter, so the next pair / pool created on the new chain gets the id it
// would have got on the old one. Closed world: one app with default parameters and arbitrary counters, no pairs, pools,
// requests or orders (their round trip is not part of this obligation).
func VP_C20_LiquidityCountersRoundTrip() {
	var k Keeper
	zzvp.Wire(&k)
	var ak assetkeeper.Keeper
	zzvp.Wire(&ak)
	ctx := zzvp.EmptyCtx()
	const app = 1
	ak.SetApp(ctx, assettypes.AppData{Id: app, Name: "app", ShortName: "a"})
	k.SetParams(ctx, types.DefaultParams())
	k.SetGenericParams(ctx, types.DefaultGenericParams(app))
	lastPair, lastPool := zzvp.AnyUint64(), zzvp.AnyUint64()
	k.SetLastPairID(ctx, app, lastPair)
	k.SetLastPoolID(ctx, app, lastPool)
	g := k.ExportGenesis(ctx)
	// the default parameters are valid (their constant addresses are well-formed bech32 strings, which the executor's
	// abstract string model cannot see by itself)
	zzvp.Assume(g.Validate() == nil)
	ctx2 := zzvp.EmptyCtx()
	panicked := zzvp.Try(func() { k.InitGenesis(ctx2, *g) })
	zzvp.Reach("round-trip-done")
	zzvp.Assert(!panicked, "export-is-accepted-by-import")
	if panicked {
		return
	}
	zzvp.Assert(k.GetLastPairID(ctx2, app) == lastPair, "last-pair-id-carried-over")
	zzvp.Assert(k.GetLastPoolID(ctx2, app) == lastPool, "last-pool-id-carried-over")
}
