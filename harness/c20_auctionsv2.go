//vp:target x/auctionsV2/zz_vp_c20.go
//vp:load ./app
//go:build verif

package auctionsV2

import (
	"github.com/comdex-official/comdex/x/auctionsV2/keeper"
	"github.com/comdex-official/comdex/x/auctionsV2/types"
	"github.com/comdex-official/comdex/zzvp"
)

// C20 (second-generation auctions): export + import into an empty store carries the running auctions and the two id
// counters that are part of the genesis state (auction id, user bid id), so the next auction / bid on the new chain
// gets the id it would have got on the old one. Closed world.
func VP_C20_AuctionsV2RoundTrip() {
	var k keeper.Keeper
	zzvp.Wire(&k)
	ctx := zzvp.EmptyCtx()
	var a types.Auction
	zzvp.AnyOf(&a)
	zzvp.Assume(a.AuctionId >= 1)
	_ = k.SetAuction(ctx, a)
	nextAuction, nextBid := zzvp.AnyUint64(), zzvp.AnyUint64()
	zzvp.Assume(nextAuction >= a.AuctionId) // the counter is the id handed out last
	k.SetAuctionID(ctx, nextAuction)
	k.SetUserBidID(ctx, nextBid)
	g := ExportGenesis(ctx, k)
	ctx2 := zzvp.EmptyCtx()
	InitGenesis(ctx2, k, *g)
	zzvp.Reach("round-trip-done")
	a2, err := k.GetAuction(ctx2, a.AuctionId)
	zzvp.Assert(zzvp.And(err == nil, a2.AuctionId == a.AuctionId, a2.AppId == a.AppId, a2.LockedVaultId == a.LockedVaultId,
		zzvp.ZI(a2.CollateralToken.Amount).Equal(zzvp.ZI(a.CollateralToken.Amount)), zzvp.ZI(a2.DebtToken.Amount).Equal(zzvp.ZI(a.DebtToken.Amount))), "auction-carried-over")
	zzvp.Assert(k.GetAuctionID(ctx2) == nextAuction, "auction-id-counter-carried-over")
	zzvp.Assert(k.GetUserBidID(ctx2) == nextBid, "user-bid-id-counter-carried-over")
}
