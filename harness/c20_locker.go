//vp:target x/locker/zz_vp_c20.go
//vp:load ./app
//go:build verif

package locker

import (
	"github.com/comdex-official/comdex/x/locker/keeper"
	"github.com/comdex-official/comdex/x/locker/types"
	"github.com/comdex-official/comdex/zzvp"
)

// C20 (locker module): export followed by import into an empty store carries every table over, and the id counter is
// such that the next locker created on the new chain gets the id it would have got on the old one (no collision with
// an existing locker). Closed world: exactly the records written here (arbitrary contents) exist; the counter is the
// id of the newest locker, as MsgCreateLocker leaves it.
func VP_C20_LockerRoundTrip() {
	var k keeper.Keeper
	zzvp.Wire(&k)
	ctx := zzvp.EmptyCtx()
	var l types.Locker
	zzvp.AnyOf(&l)
	zzvp.Assume(l.LockerId >= 1)
	k.SetLocker(ctx, l)
	k.SetIDForLocker(ctx, l.LockerId)
	var pm types.LockerProductAssetMapping
	zzvp.AnyOf(&pm)
	k.SetLockerProductAssetMapping(ctx, pm)
	var tr types.LockerTotalRewardsByAssetAppWise
	zzvp.AnyOf(&tr)
	_ = k.SetLockerTotalRewardsByAssetAppWise(ctx, tr)
	var lt types.LockerLookupTableData
	zzvp.AnyOf(&lt)
	k.SetLockerLookupTable(ctx, lt)
	var um types.UserAppAssetLockerMapping
	zzvp.AnyOf(&um)
	k.SetUserLockerAssetMapping(ctx, um)
	g := ExportGenesis(ctx, k)
	ctx2 := zzvp.EmptyCtx()
	InitGenesis(ctx2, k, g)
	zzvp.Reach("round-trip-done")
	l2, okL := k.GetLocker(ctx2, l.LockerId)
	zzvp.Assert(zzvp.And(okL, l2.LockerId == l.LockerId, l2.Depositor == l.Depositor, l2.AppId == l.AppId, l2.AssetDepositId == l.AssetDepositId,
		zzvp.ZI(l2.NetBalance).Equal(zzvp.ZI(l.NetBalance)), zzvp.ZI(l2.ReturnsAccumulated).Equal(zzvp.ZI(l.ReturnsAccumulated)), l2.IsLocked == l.IsLocked), "locker-carried-over")
	zzvp.Assert(k.GetIDForLocker(ctx2) >= l.LockerId, "next-locker-id-does-not-collide-with-an-existing-locker")
	zzvp.Assert(k.GetIDForLocker(ctx2) == k.GetIDForLocker(ctx), "locker-id-counter-carried-over")
	pm2, okP := k.GetLockerProductAssetMapping(ctx2, pm.AppId, pm.AssetId)
	zzvp.Assert(zzvp.And(okP, pm2.AppId == pm.AppId, pm2.AssetId == pm.AssetId), "product-mapping-carried-over")
	tr2, okT := k.GetLockerTotalRewardsByAssetAppWise(ctx2, tr.AppId, tr.AssetId)
	zzvp.Assert(zzvp.And(okT, zzvp.ZI(tr2.TotalRewards).Equal(zzvp.ZI(tr.TotalRewards))), "total-rewards-carried-over")
	lt2, okLT := k.GetLockerLookupTable(ctx2, lt.AppId, lt.AssetId)
	zzvp.Assert(zzvp.And(okLT, zzvp.ZI(lt2.DepositedAmount).Equal(zzvp.ZI(lt.DepositedAmount)), len(lt2.LockerIds) == len(lt.LockerIds)), "lookup-table-carried-over")
	um2, okU := k.GetUserLockerAssetMapping(ctx2, um.Owner, um.AppId, um.AssetId)
	zzvp.Assert(zzvp.And(okU, um2.LockerId == um.LockerId), "user-mapping-carried-over")
}
