//vp:target x/rewards/keeper/zz_vp_c19x.go
//vp:load ./app
//go:build verif

package keeper

import (
	"time"

	sdk "github.com/cosmos/cosmos-sdk/types"

	"github.com/comdex-official/comdex/x/rewards/types"
	vaultkeeper "github.com/comdex-official/comdex/x/vault/keeper"
	vaulttypes "github.com/comdex-official/comdex/x/vault/types"
	"github.com/comdex-official/comdex/zzvp"
)

// C19 (external reward program for vault owners, one daily epoch): the epoch pays at most the UNDISTRIBUTED remainder
// divided by the days left, the recorded remainder falls by what the epoch counted as paid and never below zero, and
// the rewards account pays out no more than that. Closed world: one program (funding and remainder symbolic, duration
// and elapsed days from a small grid), one eligible vault whose share of the product's debt comes from a grid.
func VP_C19_VaultRewardEpochPaysFromTheRemainder() {
	var k Keeper
	zzvp.Wire(&k)
	var vk vaultkeeper.Keeper
	zzvp.Wire(&vk)
	ctx := zzvp.ClosedCtx()
	D := int64(1 + zzvp.Choose(3))
	c := int64(zzvp.Choose(int(D)))
	T, A := zzvp.AnySdkInt(), zzvp.AnySdkInt()
	lim := sdk.NewInt(1 << 60)
	zzvp.Assume(zzvp.And(T.IsPositive(), T.LTE(lim), !A.IsNegative(), A.LTE(T)))
	shares := [][2]int64{{1000, 1000}, {1, 3}, {999999, 1000000}}
	sh := shares[zzvp.Choose(len(shares))]
	k.SetExternalRewardVault(ctx, types.VaultExternalRewards{Id: 1, AppMappingId: 1, ExtendedPairId: 2, TotalRewards: sdk.Coin{Denom: "ureward", Amount: T},
		DurationDays: D, IsActive: true, AvailableRewards: sdk.Coin{Denom: "ureward", Amount: A}, Depositor: "depositor", MinLockupTimeSeconds: 0, EpochId: 1})
	k.SetEpochTime(ctx, types.EpochTime{Id: 1, AppMappingId: 1, StartingTime: 0, Count: uint64(c)})
	owner := zzvp.AnyString()
	ownerAddr, errO := sdk.AccAddressFromBech32(owner)
	zzvp.Assume(errO == nil && !ownerAddr.Equals(zzvp.ModuleAddr(types.ModuleName)))
	vk.SetVault(ctx, vaulttypes.Vault{Id: 1, AppId: 1, ExtendedPairVaultID: 2, Owner: owner, AmountIn: sdk.NewInt(1), AmountOut: sdk.NewInt(sh[0]),
		CreatedAt: time.Unix(0, 0), InterestAccumulated: sdk.ZeroInt(), ClosingFeeAccumulated: sdk.ZeroInt()})
	vk.SetAppExtendedPairVaultMappingData(ctx, vaulttypes.AppExtendedPairVaultMappingData{AppId: 1, ExtendedPairId: 2, VaultIds: []uint64{1},
		TokenMintedAmount: sdk.NewInt(sh[1]), CollateralLockedAmount: sdk.NewInt(1)})
	zzvp.Assume(ctx.BlockTime().Unix() > 0)
	zzvp.Mark()
	err := k.DistributeExtRewardVault(ctx)
	zzvp.Reach("epoch-processed")
	zzvp.Assert(err == nil, "epoch-reports-no-error")
	all := k.GetExternalRewardVaults(ctx)
	zzvp.Assert(len(all) == 1, "program-still-stored")
	if len(all) != 1 {
		return
	}
	post := all[0]
	paid := zzvp.BalanceDelta(zzvp.ModuleAddr(types.ModuleName), "ureward").Neg()
	counted := A.Sub(post.AvailableRewards.Amount)
	zzvp.Assert(!post.AvailableRewards.Amount.IsNegative(), "recorded-remainder-never-negative")
	zzvp.Assert(zzvp.And(!paid.IsNegative(), paid.LTE(counted)), "rewards-account-pays-no-more-than-the-epoch-counted")
	// counted * daysLeft <= remainder: the epoch's allocation is the remainder divided by the days left
	zzvp.Assert(zzvp.ZI(counted).Mul(zzvp.ZN(D-c)).LTE(zzvp.ZI(A)), "epoch-pays-at-most-the-remainder-divided-by-days-left")
	if paid.IsPositive() {
		zzvp.Reach("rewards-paid")
	}
}
