//vp:target x/auction/keeper/zz_vp_c11s.go
//vp:load ./app
//go:build verif

package keeper

import (
	sdk "github.com/cosmos/cosmos-sdk/types"

	auctiontypes "github.com/comdex-official/comdex/x/auction/types"
	"github.com/comdex-official/comdex/zzvp"
)

// C11 (English-style auctions, first generation, surplus): one bid on an arbitrary running surplus auction. Custody
// changes by exactly (new standing bid - previous standing bid), the outbid bidder is refunded in full in the same step,
// the new bid improves on the standing one by at least factor * standing (so by at least ceil(factor * standing) whole
// units), and the auction record carries the new bid and bidder.
func VP_C11_V1SurplusBid() {
	zzvp.Option("overflow-as-obligation")
	var k Keeper
	zzvp.Wire(&k)
	ctx := zzvp.Ctx()
	var a auctiontypes.SurplusAuction
	zzvp.AnyOf(&a)
	prevAddr := zzvp.AnyAddr()
	a.Bidder = prevAddr
	zzvp.Assume(zzvp.And(a.AuctionId != 0, a.SellToken.Denom != a.BuyToken.Denom, a.Bid.Denom == a.BuyToken.Denom))
	zzvp.Assume(zzvp.And(!a.BidFactor.IsNegative(), a.BidFactor.LTE(sdk.OneDec())))
	active := a.AuctionStatus != auctiontypes.AuctionStartNoBids
	zzvp.Assume(zzvp.And(a.ActiveBiddingId <= k.GetUserBiddingID(ctx), k.GetUserBiddingID(ctx) < 1<<62))
	_ = k.SetSurplusAuction(ctx, a)
	addr := zzvp.AnyAddr()
	zzvp.Assume(!addr.Equals(prevAddr))
	bid := sdk.Coin{Denom: zzvp.AnyString(), Amount: zzvp.AnySdkInt()}
	zzvp.Assume(!bid.Amount.IsNegative())
	zzvp.Mark()
	err := k.PlaceSurplusAuctionBid(ctx, a.AppId, a.AuctionMappingId, a.AuctionId, addr, bid)
	if err != nil {
		return
	}
	zzvp.Reach("bid-accepted")
	custody := zzvp.ModuleAddr(auctiontypes.ModuleName)
	D := a.BuyToken.Denom
	dCust := zzvp.ZI(zzvp.BalanceDelta(custody, D))
	dPrev := zzvp.ZI(zzvp.BalanceDelta(prevAddr, D))
	dNew := zzvp.ZI(zzvp.BalanceDelta(addr, D))
	prev := zzvp.ZI(a.Bid.Amount)
	zero := zzvp.ZN(0)
	post, errP := k.GetSurplusAuction(ctx, a.AppId, a.AuctionMappingId, a.AuctionId)
	zzvp.Assert(errP == nil, "auction-still-recorded")
	zzvp.Assert(bid.Denom == D, "bid-in-the-buy-denomination")
	zzvp.Assert(dCust.Equal(zzvp.ZI(bid.Amount).Sub(zzvp.IteZ(active, prev, zero))), "custody-delta=new-bid-minus-previous-bid")
	zzvp.Assert(dNew.Equal(zzvp.ZI(bid.Amount).Neg()), "new-bidder-pays-exactly-the-bid")
	zzvp.Assert(dPrev.Equal(zzvp.IteZ(active, prev, zero)), "outbid-bidder-refunded-in-full-in-the-same-step")
	f := zzvp.ZD(a.BidFactor)
	// bid >= prev + ceil(factor*prev)  <=>  (bid - prev) * 1e18 >= factor * prev
	zzvp.Assert(zzvp.Implies(active, zzvp.ZI(bid.Amount).Sub(prev).Mul(zzvp.Pow10(18)).GTE(f.Mul(prev))), "bid-improves-by-at-least-the-bid-factor")
	zzvp.Assert(zzvp.Implies(!active, zzvp.ZI(bid.Amount).GT(prev)), "first-bid-above-the-reserve")
	zzvp.Assert(post.Bid.Amount.Equal(bid.Amount) && post.Bid.Denom == D, "auction-records-the-new-standing-bid")
	zzvp.Assert(post.Bidder.Equals(addr), "auction-records-the-new-bidder")
	zzvp.Assert(post.ActiveBiddingId != a.ActiveBiddingId && post.ActiveBiddingId != 0, "standing-bid-id-updated")
	zzvp.Assert(post.AuctionStatus != auctiontypes.AuctionStartNoBids, "auction-marked-as-having-a-bid")
}

// C11 (English-style auctions, first generation, debt): one bid on an arbitrary running debt auction. Every bidder pays
// the fixed amount of the expected user token and bids for fewer newly minted tokens; custody holds exactly one standing
// payment, the outbid bidder gets theirs back in the same step, and the accepted bid is lower than the standing one by at
// least factor * standing.
func VP_C11_V1DebtBid() {
	zzvp.Option("overflow-as-obligation")
	var k Keeper
	zzvp.Wire(&k)
	ctx := zzvp.Ctx()
	var a auctiontypes.DebtAuction
	zzvp.AnyOf(&a)
	prevAddr := zzvp.AnyAddr()
	a.Bidder = prevAddr
	zzvp.Assume(zzvp.And(a.AuctionId != 0, a.ExpectedUserToken.Denom != a.ExpectedMintedToken.Denom, a.AuctionedToken.Denom == a.ExpectedMintedToken.Denom))
	zzvp.Assume(zzvp.And(!a.BidFactor.IsNegative(), a.BidFactor.LTE(sdk.OneDec())))
	active := a.AuctionStatus != auctiontypes.AuctionStartNoBids
	zzvp.Assume(zzvp.And(a.ActiveBiddingId <= k.GetUserBiddingID(ctx), k.GetUserBiddingID(ctx) < 1<<62))
	_ = k.SetDebtAuction(ctx, a)
	addr := zzvp.AnyAddr()
	zzvp.Assume(!addr.Equals(prevAddr))
	bid := sdk.Coin{Denom: zzvp.AnyString(), Amount: zzvp.AnySdkInt()}
	pay := sdk.Coin{Denom: zzvp.AnyString(), Amount: zzvp.AnySdkInt()}
	zzvp.Assume(zzvp.And(!bid.Amount.IsNegative(), !pay.Amount.IsNegative()))
	zzvp.Mark()
	err := k.PlaceDebtAuctionBid(ctx, a.AppId, a.AuctionMappingId, a.AuctionId, addr, bid, pay)
	if err != nil {
		return
	}
	zzvp.Reach("bid-accepted")
	custody := zzvp.ModuleAddr(auctiontypes.ModuleName)
	D := a.ExpectedUserToken.Denom
	dCust := zzvp.ZI(zzvp.BalanceDelta(custody, D))
	dPrev := zzvp.ZI(zzvp.BalanceDelta(prevAddr, D))
	dNew := zzvp.ZI(zzvp.BalanceDelta(addr, D))
	fixed := zzvp.ZI(a.ExpectedUserToken.Amount)
	zero := zzvp.ZN(0)
	post, errP := k.GetDebtAuction(ctx, a.AppId, a.AuctionMappingId, a.AuctionId)
	zzvp.Assert(errP == nil, "auction-still-recorded")
	zzvp.Assert(pay.Denom == D && pay.Amount.Equal(a.ExpectedUserToken.Amount), "payment-is-the-fixed-expected-user-token")
	zzvp.Assert(bid.Denom == a.ExpectedMintedToken.Denom, "bid-in-the-minted-denomination")
	zzvp.Assert(dCust.Equal(zzvp.IteZ(active, zero, fixed)), "custody-holds-exactly-one-standing-payment")
	zzvp.Assert(dNew.Equal(fixed.Neg()), "new-bidder-pays-the-fixed-amount")
	zzvp.Assert(dPrev.Equal(zzvp.IteZ(active, fixed, zero)), "outbid-bidder-refunded-in-full-in-the-same-step")
	standing := zzvp.ZI(a.ExpectedMintedToken.Amount)
	f := zzvp.ZD(a.BidFactor)
	// bid <= standing - ceil(factor*standing)  <=>  (standing - bid) * 1e18 >= factor * standing
	zzvp.Assert(zzvp.Implies(active, standing.Sub(zzvp.ZI(bid.Amount)).Mul(zzvp.Pow10(18)).GTE(f.Mul(standing))), "bid-improves-by-at-least-the-bid-factor")
	zzvp.Assert(zzvp.Implies(!active, zzvp.ZI(bid.Amount).LTE(zzvp.ZI(a.AuctionedToken.Amount))), "first-bid-not-above-the-auctioned-amount")
	zzvp.Assert(post.ExpectedMintedToken.Amount.Equal(bid.Amount) && post.CurrentBidAmount.Amount.Equal(bid.Amount), "auction-records-the-new-standing-bid")
	zzvp.Assert(post.Bidder.Equals(addr), "auction-records-the-new-bidder")
	zzvp.Assert(post.ActiveBiddingId != a.ActiveBiddingId && post.ActiveBiddingId != 0, "standing-bid-id-updated")
	zzvp.Assert(post.ExpectedUserToken.Amount.Equal(a.ExpectedUserToken.Amount), "fixed-payment-unchanged")
}

// C11 (first generation, surplus, end of the auction): closing a running surplus auction that has a standing bid hands
// the lot to exactly the standing bidder and takes the standing bid out of custody (burnt); under emergency shutdown the
// standing bidder gets the bid back instead and the lot returns to the collector. Nobody else's balance moves, and the
// auction leaves the table of running auctions.
func VP_C11_V1SurplusClose() {
	zzvp.Option("overflow-as-obligation")
	var k Keeper
	zzvp.Wire(&k)
	ctx := zzvp.Ctx()
	var a auctiontypes.SurplusAuction
	zzvp.AnyOf(&a)
	winner := zzvp.AnyAddr()
	a.Bidder = winner
	a.BiddingIds = nil // the per-bid bookkeeping loop moves no coins; history records are outside this obligation
	zzvp.Assume(zzvp.And(a.AuctionId != 0, a.SellToken.Denom != a.BuyToken.Denom, a.Bid.Denom == a.BuyToken.Denom))
	zzvp.Assume(zzvp.And(a.SellToken.Amount.IsPositive(), a.Bid.Amount.IsPositive()))
	_ = k.SetSurplusAuction(ctx, a)
	other := zzvp.AnyAddr()
	zzvp.Assume(!other.Equals(winner))
	esm := zzvp.AnyBool()
	zzvp.Mark()
	err := k.closeSurplusAuction(ctx, a, esm)
	if err != nil {
		return
	}
	zzvp.Reach("auction-closed")
	custody := zzvp.ModuleAddr(auctiontypes.ModuleName)
	S, B := a.SellToken.Denom, a.BuyToken.Denom
	lot, bid := zzvp.ZI(a.SellToken.Amount), zzvp.ZI(a.Bid.Amount)
	zero := zzvp.ZN(0)
	zzvp.Assert(zzvp.ZI(zzvp.BalanceDelta(winner, S)).Equal(zzvp.IteZ(esm, zero, lot)), "standing-bidder-receives-the-lot")
	zzvp.Assert(zzvp.ZI(zzvp.BalanceDelta(winner, B)).Equal(zzvp.IteZ(esm, bid, zero)), "standing-bid-returned-only-under-shutdown")
	zzvp.Assert(zzvp.ZI(zzvp.BalanceDelta(custody, S)).Equal(lot.Neg()), "lot-leaves-custody")
	zzvp.Assert(zzvp.ZI(zzvp.BalanceDelta(custody, B)).Equal(bid.Neg()), "standing-bid-leaves-custody")
	zzvp.Assert(zzvp.ZI(zzvp.BalanceDelta(other, S)).Equal(zero) && zzvp.ZI(zzvp.BalanceDelta(other, B)).Equal(zero), "nobody-else-gains-or-loses")
	_, errG := k.GetSurplusAuction(ctx, a.AppId, a.AuctionMappingId, a.AuctionId)
	zzvp.Assert(errG != nil, "closed-auction-is-no-longer-running")
}
