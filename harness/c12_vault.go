//vp:target x/vault/keeper/zz_vp_c12.go
//vp:load ./app
//go:build verif

package keeper

import "github.com/comdex-official/comdex/zzvp"

// C12 (vault positions): a message that names a vault and succeeds was signed by that vault's owner.
// The signer is the message's From (its GetSigners()); the owner is read from the pre-state.
func vpC12(h int) {
	w := vpVaultWorld(true)
	zzvp.Mark()
	if w.vpVaultCall(h) != nil {
		return
	}
	zzvp.Reach("handler-succeeded")
	zzvp.Assert(w.hasVault, "named-vault-exists")
	zzvp.Assert(zzvp.Implies(w.hasVault, w.v.Owner == w.from), "only-the-owner-can-act-on-a-vault")
	zzvp.Assert(zzvp.Implies(w.hasVault, zzvp.And(w.v.AppId == w.appID, w.v.ExtendedPairVaultID == w.extID)), "vault-belongs-to-the-named-product")
}

func VP_C12_VaultMsgDeposit()        { vpC12(vpHDeposit) }
func VP_C12_VaultMsgWithdraw()       { vpC12(vpHWithdraw) }
func VP_C12_VaultMsgDraw()           { vpC12(vpHDraw) }
func VP_C12_VaultMsgRepay()          { vpC12(vpHRepay) }
func VP_C12_VaultMsgClose()          { vpC12(vpHClose) }
func VP_C12_VaultMsgDepositAndDraw() { vpC12(vpHDepositAndDraw) }
