//vp:target x/liquidationsV2/keeper/zz_vp_c15.go
//vp:props C15 C09
//vp:load ./app
//go:build verif

package keeper

import (
	"github.com/comdex-official/comdex/x/liquidationsV2/types"
	lendkeeper "github.com/comdex-official/comdex/x/lend/keeper"
	lendtypes "github.com/comdex-official/comdex/x/lend/types"
	vaultkeeper "github.com/comdex-official/comdex/x/vault/keeper"
	vaulttypes "github.com/comdex-official/comdex/x/vault/types"
	"github.com/comdex-official/comdex/zzvp"
)

const vpLiqOne = "(github.com/comdex-official/comdex/x/liquidationsV2/keeper.Keeper).LiquidateIndividualVault"

// C15 / C09 (per-block vault sweep, second generation): for every number of stored vaults (0..N), every stored
// sweep offset, every batch size the parameters admit and EVERY value of the vault counter (including one that
// disagrees with the stored list), the sweep never panics; with a consistent counter it visits exactly the window
// [offset, offset+batch) of the list (wrapping to the start when the offset has run off the end), continues after an
// item fails, and stores the end of the window as the next offset. The per-vault step is a contract stub (any
// outcome incl. error); its own obligations are C09's safety harnesses.
func VP_C15_V2VaultSweepNeverPanics() {
	zzvp.Stub(vpLiqOne)
	var k Keeper
	zzvp.Wire(&k)
	var vk vaultkeeper.Keeper
	zzvp.Wire(&vk)
	ctx := zzvp.ClosedCtx()
	maxN := 2
	if zzvp.Thorough() {
		maxN = 4
	}
	n := zzvp.Choose(maxN + 1)
	for i := 0; i < n; i++ {
		var v vaulttypes.Vault
		zzvp.AnyOf(&v)
		v.Id = uint64(i + 1)
		vk.SetVault(ctx, v)
	}
	counter := zzvp.AnyUint64()
	vk.SetLengthOfVault(ctx, counter)
	batch := zzvp.AnyUint64()
	zzvp.Assume(types.NewParams(batch).Validate() == nil) // the module's own parameter validation
	k.SetParams(ctx, types.NewParams(batch))
	offset := zzvp.AnyUint64()
	if zzvp.AnyBool() {
		k.SetLiquidationOffsetHolder(ctx, types.VaultLiquidationsOffsetPrefix, types.LiquidationOffsetHolder{AppId: 0, CurrentOffset: offset})
	} else {
		offset = 0
	}
	var err error
	panicked := zzvp.Try(func() { err = k.LiquidateVaults(ctx, 0) })
	zzvp.Reach("sweep-returned")
	zzvp.Assert(!panicked, "sweep-never-panics-whatever-the-counter-says")
	if panicked || counter != uint64(n) {
		return
	}
	zzvp.Reach("consistent-counter")
	zzvp.Assert(err == nil, "sweep-reports-no-error")
	visited := zzvp.SpyCount(vpLiqOne)
	// expected window
	start := offset
	if start >= uint64(n) {
		start = 0
	}
	end := uint64(n)
	if batch < uint64(n)-start {
		end = start + batch
	}
	zzvp.Assert(uint64(visited) == end-start, "every-vault-of-the-window-is-visited-even-after-a-failing-one")
	for i := 0; i < visited; i++ {
		// all-or-nothing per item: the step must run on the cache context that ApplyFuncIfNoError branched for it, not on
		// the block's own context (whose writes would stay after a failure)
		zzvp.Assert(!zzvp.SpyArgIsCtx(vpLiqOne, i, 1, ctx), "each-vault-step-runs-on-its-own-cache-context")
	}
	h, found := k.GetLiquidationOffsetHolder(ctx, types.VaultLiquidationsOffsetPrefix, 0)
	zzvp.Assert(zzvp.And(found, h.CurrentOffset == end), "next-offset-is-the-end-of-the-window")
}

const vpLiqOneBorrow = "(github.com/comdex-official/comdex/x/liquidationsV2/keeper.Keeper).LiquidateIndividualBorrow"

// C09 liveness / C15 (per-block borrow sweep, second generation): the sweep keeps its own position. For every number
// of open borrows, stored offsets of BOTH sweeps and batch size: it never panics, visits exactly its window even when
// items fail (a failing borrow must not stop the sweep, nor pin it to the same window for ever), stores the end of the
// window as ITS next offset (so the following block continues there and every borrow is examined within
// ceil(n/batch)+1 blocks), and leaves the vault sweep's offset alone. The per-borrow step is a contract stub (any
// outcome incl. error).
func vpBorrowSweep(c15 bool) (completed bool) {
	zzvp.Stub(vpLiqOneBorrow)
	var k Keeper
	zzvp.Wire(&k)
	var lk lendkeeper.Keeper
	zzvp.Wire(&lk)
	ctx := zzvp.ClosedCtx()
	maxN := 2
	if zzvp.Thorough() {
		maxN = 4
	}
	n := zzvp.Choose(maxN + 1)
	var ids []uint64
	for i := 0; i < n; i++ {
		ids = append(ids, uint64(i+1))
	}
	lk.SetAssetStatsByPoolIDAndAssetID(ctx, lendtypes.PoolAssetLBMapping{PoolID: 1, AssetID: 1, BorrowIds: ids})
	batch := zzvp.AnyUint64()
	zzvp.Assume(types.NewParams(batch).Validate() == nil)
	k.SetParams(ctx, types.NewParams(batch))
	vaultOffset, offset := zzvp.AnyUint64(), zzvp.AnyUint64()
	k.SetLiquidationOffsetHolder(ctx, types.VaultLiquidationsOffsetPrefix, types.LiquidationOffsetHolder{AppId: 0, CurrentOffset: vaultOffset})
	if zzvp.AnyBool() {
		k.SetLiquidationOffsetHolder(ctx, types.VaultLiquidationsOffsetPrefix, types.LiquidationOffsetHolder{AppId: 1, CurrentOffset: offset})
	} else {
		offset = 0
	}
	var err error
	panicked := zzvp.Try(func() { err = k.LiquidateBorrows(ctx, 1) })
	zzvp.Reach("borrow-sweep-returned")
	start := offset
	if start >= uint64(n) {
		start = 0
	}
	end := uint64(n)
	if batch < uint64(n)-start {
		end = start + batch
	}
	visited := uint64(zzvp.SpyCount(vpLiqOneBorrow))
	h, found := k.GetLiquidationOffsetHolder(ctx, types.VaultLiquidationsOffsetPrefix, 1)
	if c15 {
		zzvp.Assert(!panicked, "borrow-sweep-never-panics")
		zzvp.Assert(zzvp.Or(panicked, err == nil), "a-failing-borrow-does-not-fail-the-sweep")
		zzvp.Assert(visited == end-start, "every-borrow-of-the-window-is-visited-even-after-a-failing-one")
		for i := 0; i < int(visited); i++ {
			zzvp.Assert(!zzvp.SpyArgIsCtx(vpLiqOneBorrow, i, 1, ctx), "each-borrow-step-runs-on-its-own-cache-context")
		}
		zzvp.Assert(zzvp.And(found, h.CurrentOffset == end), "the-sweep-moves-on-even-after-a-failing-borrow")
		return false
	}
	hv, foundV := k.GetLiquidationOffsetHolder(ctx, types.VaultLiquidationsOffsetPrefix, 0)
	zzvp.Assert(zzvp.And(foundV, hv.CurrentOffset == vaultOffset), "vault-sweep-offset-untouched-by-the-borrow-sweep")
	if panicked || err != nil {
		return false
	}
	zzvp.Assert(visited == end-start, "every-borrow-of-the-window-is-visited")
	zzvp.Assert(zzvp.And(found, h.CurrentOffset == end), "borrow-sweep-next-offset-is-the-end-of-its-window")
	return true
}

func VP_C09_V2BorrowSweepKeepsItsOwnOffset() {
	if vpBorrowSweep(false) {
		zzvp.Reach("borrow-sweep-completed")
	}
}
func VP_C15_V2BorrowSweepIsolatesFailures() { vpBorrowSweep(true) }
