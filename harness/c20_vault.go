//vp:target x/vault/zz_vp_c20.go
//vp:load ./app
//go:build verif

package vault

import (
	"github.com/comdex-official/comdex/x/vault/keeper"
	"github.com/comdex-official/comdex/x/vault/types"
	"github.com/comdex-official/comdex/zzvp"
)

// C20 (vault module): export followed by import into an empty store carries the vault, the stable-mint vault, both
// mapping tables and the vault count over, and both id counters are such that the next vault / stable-mint vault
// created on the new chain does not reuse the id of a live one. Closed world: one vault and one stable-mint vault with
// arbitrary, independent ids (so the ordinary id may be above, equal to or below the stable-mint id), counters at those ids.
func VP_C20_VaultRoundTrip() {
	var k keeper.Keeper
	zzvp.Wire(&k)
	ctx := zzvp.EmptyCtx()
	var v types.Vault
	zzvp.AnyOf(&v)
	var s types.StableMintVault
	zzvp.AnyOf(&s)
	zzvp.Assume(v.Id >= 1 && s.Id >= 1)
	k.SetVault(ctx, v)
	k.SetStableMintVault(ctx, s)
	k.SetIDForVault(ctx, v.Id)
	k.SetIDForStableVault(ctx, s.Id)
	n := zzvp.AnyUint64()
	k.SetLengthOfVault(ctx, n)
	var am types.AppExtendedPairVaultMappingData
	zzvp.AnyOf(&am)
	k.SetAppExtendedPairVaultMappingData(ctx, am)
	var um types.OwnerAppExtendedPairVaultMappingData
	zzvp.AnyOf(&um)
	k.SetUserAppExtendedPairMappingData(ctx, um)
	g := ExportGenesis(ctx, k)
	ctx2 := zzvp.EmptyCtx()
	InitGenesis(ctx2, k, g)
	zzvp.Reach("round-trip-done")
	v2, okV := k.GetVault(ctx2, v.Id)
	zzvp.Assert(zzvp.And(okV, v2.Id == v.Id, v2.Owner == v.Owner, v2.AppId == v.AppId, v2.ExtendedPairVaultID == v.ExtendedPairVaultID,
		zzvp.ZI(v2.AmountIn).Equal(zzvp.ZI(v.AmountIn)), zzvp.ZI(v2.AmountOut).Equal(zzvp.ZI(v.AmountOut)),
		zzvp.ZI(v2.InterestAccumulated).Equal(zzvp.ZI(v.InterestAccumulated)), zzvp.ZI(v2.ClosingFeeAccumulated).Equal(zzvp.ZI(v.ClosingFeeAccumulated))), "vault-carried-over")
	s2, okS := k.GetStableMintVault(ctx2, s.Id)
	zzvp.Assert(zzvp.And(okS, s2.Id == s.Id, s2.AppId == s.AppId, s2.ExtendedPairVaultID == s.ExtendedPairVaultID,
		zzvp.ZI(s2.AmountIn).Equal(zzvp.ZI(s.AmountIn)), zzvp.ZI(s2.AmountOut).Equal(zzvp.ZI(s.AmountOut))), "stable-mint-vault-carried-over")
	zzvp.Assert(k.GetIDForVault(ctx2) >= v.Id, "next-vault-id-does-not-collide-with-a-live-vault")
	zzvp.Assert(k.GetIDForStableVault(ctx2) >= s.Id, "next-stable-mint-vault-id-does-not-collide-with-a-live-one")
	zzvp.Assert(k.GetLengthOfVault(ctx2) == n, "vault-count-carried-over")
	am2, okA := k.GetAppExtendedPairVaultMappingData(ctx2, am.AppId, am.ExtendedPairId)
	zzvp.Assert(zzvp.And(okA, zzvp.ZI(am2.TokenMintedAmount).Equal(zzvp.ZI(am.TokenMintedAmount)), zzvp.ZI(am2.CollateralLockedAmount).Equal(zzvp.ZI(am.CollateralLockedAmount)),
		len(am2.VaultIds) == len(am.VaultIds)), "published-totals-carried-over")
	um2, okU := k.GetUserAppExtendedPairMappingData(ctx2, um.Owner, um.AppId, um.ExtendedPairId)
	zzvp.Assert(zzvp.And(okU, um2.VaultId == um.VaultId), "owner-mapping-carried-over")
}
