//vp:target x/auctionsV2/keeper/zz_vp_c11.go
//vp:load ./app
//go:build verif

package keeper

import (
	sdk "github.com/cosmos/cosmos-sdk/types"

	"github.com/comdex-official/comdex/x/auctionsV2/types"
	"github.com/comdex-official/comdex/zzvp"
)

const (
	vpLBDeposit = iota
	vpLBCancel
	vpLBWithdraw
)

// C11 (limit bids), one inductive step per limit-bid message with amount AND denomination taken from the message
// (only the message's ValidateBasic is assumed): a depositor can take out at most the own recorded deposit, in the
// deposited asset; the recorded total of limit bids moves exactly with the individual deposit; coins move only
// between the bidder and auction custody, and custody falls by no more than the recorded total.
func vpC11LimitBid(h int) {
	zzvp.Option("overflow-as-obligation")
	var k Keeper
	zzvp.Wire(&k)
	ctx := zzvp.Ctx()
	bidder := zzvp.AnyString()
	collID, debtID := zzvp.AnyUint64(), zzvp.AnyUint64()
	premium := zzvp.AnySdkInt()
	amount := sdk.Coin{Denom: zzvp.AnyString(), Amount: zzvp.AnySdkInt()}
	addr, errA := sdk.AccAddressFromBech32(bidder)
	zzvp.Assume(errA == nil)
	// pre-state: the bidder's record (if any) is stored under its own key fields; the auction parameters' fees are rates in [0,1]
	pre, hasPre := k.GetUserLimitBidData(ctx, debtID, collID, premium, bidder)
	zzvp.Assume(zzvp.Implies(hasPre, zzvp.And(pre.BidderAddress == bidder, pre.DebtTokenId == debtID, pre.CollateralTokenId == collID)))
	debtAsset, okD := k.asset.GetAsset(ctx, debtID)
	zzvp.Assume(zzvp.Implies(okD, debtAsset.Id == debtID))
	// invariant: a recorded deposit is denominated in its debt asset (established by deposit, asserted below)
	zzvp.Assume(zzvp.Implies(zzvp.And(hasPre, okD), pre.DebtToken.Denom == debtAsset.Denom))
	zzvp.Assume(zzvp.Implies(hasPre, okD))
	params, _ := k.GetAuctionParams(ctx)
	zzvp.Assume(zzvp.And(!params.ClosingFee.IsNegative(), params.ClosingFee.LTE(sdk.OneDec()), !params.WithdrawalFee.IsNegative(), params.WithdrawalFee.LTE(sdk.OneDec())))
	prot, hasProt := k.GetLimitBidProtocolDataByAssetID(ctx, debtID, collID)
	zzvp.Assume(zzvp.Implies(hasProt, zzvp.And(prot.DebtAssetId == debtID, prot.CollateralAssetId == collID)))
	srv := NewMsgServerImpl(k)
	c := sdk.WrapSDKContext(ctx)
	var err error
	zzvp.Mark()
	switch h {
	case vpLBDeposit:
		m := &types.MsgDepositLimitBidRequest{CollateralTokenId: collID, DebtTokenId: debtID, PremiumDiscount: premium, Bidder: bidder, Amount: amount}
		zzvp.Assume(m.ValidateBasic() == nil)
		_, err = srv.MsgDepositLimitBid(c, m)
	case vpLBCancel:
		m := &types.MsgCancelLimitBidRequest{CollateralTokenId: collID, DebtTokenId: debtID, PremiumDiscount: premium, Bidder: bidder}
		zzvp.Assume(m.ValidateBasic() == nil)
		_, err = srv.MsgCancelLimitBid(c, m)
	case vpLBWithdraw:
		m := &types.MsgWithdrawLimitBidRequest{CollateralTokenId: collID, DebtTokenId: debtID, PremiumDiscount: premium, Bidder: bidder, Amount: amount}
		zzvp.Assume(m.ValidateBasic() == nil)
		_, err = srv.MsgWithdrawLimitBid(c, m)
	}
	if err != nil {
		return
	}
	zzvp.Reach("handler-succeeded")
	post, hasPost := k.GetUserLimitBidData(ctx, debtID, collID, premium, bidder)
	preDep := zzvp.IteZ(hasPre, zzvp.ZI(pre.DebtToken.Amount), zzvp.ZN(0))
	postDep := zzvp.IteZ(hasPost, zzvp.ZI(post.DebtToken.Amount), zzvp.ZN(0))
	dDep := postDep.Sub(preDep)
	zzvp.Assert(!postDep.IsNegative(), "recorded-deposit-never-negative")
	zzvp.Assert(zzvp.Implies(hasPost, post.DebtToken.Denom == debtAsset.Denom), "inv:deposit-denominated-in-its-debt-asset")
	protPost, _ := k.GetLimitBidProtocolDataByAssetID(ctx, debtID, collID)
	dTotal := zzvp.ZI(protPost.BidValue).Sub(zzvp.IteZ(hasProt, zzvp.ZI(prot.BidValue), zzvp.ZN(0)))
	zzvp.Assert(dTotal.Equal(dDep), "recorded-total-delta=individual-deposit-delta")
	custody := zzvp.ModuleAddr(types.ModuleName)
	dUser := zzvp.ZI(zzvp.BalanceDelta(addr, debtAsset.Denom))
	dCust := zzvp.ZI(zzvp.BalanceDelta(custody, debtAsset.Denom))
	zzvp.Assert(dUser.Add(dCust).IsZero(), "coins-move-only-between-bidder-and-custody")
	zzvp.Assert(dCust.GTE(dTotal), "custody-falls-by-no-more-than-the-recorded-total")
	zzvp.Assert(dUser.LTE(dDep.Neg()), "bidder-gets-at-most-what-the-own-deposit-is-reduced-by")
	if h != vpLBCancel {
		// nothing in any other denomination moves (the message's denomination is arbitrary)
		zzvp.Assert(zzvp.Or(amount.Denom == debtAsset.Denom, zzvp.And(zzvp.BalanceDelta(addr, amount.Denom).IsZero(), zzvp.BalanceDelta(custody, amount.Denom).IsZero())), "only-the-deposited-asset-moves")
	}
	if h == vpLBDeposit {
		zzvp.Assert(zzvp.And(dDep.Equal(zzvp.ZI(amount.Amount)), dUser.Equal(zzvp.ZI(amount.Amount).Neg())), "deposit-recorded-and-paid-exactly")
	}
}

func VP_C11_MsgDepositLimitBid()  { vpC11LimitBid(vpLBDeposit) }
func VP_C11_MsgCancelLimitBid()   { vpC11LimitBid(vpLBCancel) }
func VP_C11_MsgWithdrawLimitBid() { vpC11LimitBid(vpLBWithdraw) }
