//vp:target x/lend/zz_vp_c15.go
//vp:load ./app
//go:build verif

package lend

import (
	abci "github.com/cometbft/cometbft/abci/types"

	"github.com/comdex-official/comdex/x/lend/keeper"
	"github.com/comdex-official/comdex/zzvp"
)

// C15 (lend hook): whatever its unit of work does - succeed, report failure or PANIC (contract stub with a panic
// outcome) - lend.BeginBlocker returns normally, for any block height and arbitrary state.
func VP_C15_LendBeginBlockerContainsItsWork() {
	zzvp.StubMayPanic("(github.com/comdex-official/comdex/x/lend/keeper.Keeper).DeletePoolAndTransferInterest")
	var k keeper.Keeper
	zzvp.Wire(&k)
	ctx := zzvp.Ctx().WithBlockHeight(zzvp.AnyInt64())
	zzvp.Assume(ctx.BlockHeight() >= 1)
	panicked := zzvp.Try(func() { BeginBlocker(ctx, abci.RequestBeginBlock{}, k) })
	zzvp.Reach("hook-returned")
	zzvp.Assert(!panicked, "no-panic-escapes-the-lend-hook")
}
