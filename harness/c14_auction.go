//vp:target x/auction/keeper/zz_vp_c14.go
//vp:load ./app
//go:build verif

package keeper

import (
	collectortypes "github.com/comdex-official/comdex/x/collector/types"
	esmtypes "github.com/comdex-official/comdex/x/esm/types"
	"github.com/comdex-official/comdex/zzvp"
)

const vpAK = "(github.com/comdex-official/comdex/x/auction/keeper.Keeper)."

// C14 (first-generation surplus / debt auctions, the per-block activators): with the app's circuit breaker on OR its
// emergency shutdown executed, no new surplus or debt auction is started, whatever the lookup record says. The creation
// and closing routines themselves are spy stubs: the obligation is the gate in front of them.
func vpActivator(debt bool) {
	for _, f := range []string{"CreateDebtAuction", "CreateSurplusAuction", "DebtAuctionClose", "SurplusAuctionClose"} {
		zzvp.Stub(vpAK + f)
	}
	var k Keeper
	zzvp.Wire(&k)
	ctx := zzvp.Ctx()
	var data collectortypes.AppAssetIdToAuctionLookupTable
	zzvp.AnyOf(&data)
	var ks esmtypes.KillSwitchParams
	zzvp.AnyOf(&ks)
	status := zzvp.AnyBool()
	if debt {
		_ = k.DebtActivator(ctx, data, ks, status)
	} else {
		_ = k.SurplusActivator(ctx, data, ks, status)
	}
	zzvp.Reach("activator-returned")
	started := zzvp.SpyCount(vpAK+"CreateDebtAuction") + zzvp.SpyCount(vpAK+"CreateSurplusAuction")
	if ks.BreakerEnable || status {
		zzvp.Reach("control-on")
		zzvp.Assert(started == 0, "no-auction-started-while-breaker-or-shutdown-is-on")
	}
	zzvp.Assert(started <= 1, "at-most-one-auction-started-per-visit")
	if started == 1 {
		zzvp.Reach("auction-started")
		zzvp.Assert(!data.IsAuctionActive, "no-second-auction-while-one-is-active")
	}
}

func VP_C14_V1DebtActivatorFailsClosed()    { vpActivator(true) }
func VP_C14_V1SurplusActivatorFailsClosed() { vpActivator(false) }
