//vp:target x/auctionsV2/keeper/zz_vp_c10p.go
//vp:load ./app
//go:build verif

package keeper

import (
	sdk "github.com/cosmos/cosmos-sdk/types"

	"github.com/comdex-official/comdex/zzvp"
)

// C10 (falling price): between restarts the posted collateral price of a second-generation Dutch auction is
// non-increasing in elapsed time, never above the start price and never negative while the auction is live.
// Start price and time-to-zero come from a grid (they are configuration of one auction run), elapsed time is symbolic
// and compared against every grid instant (sandwich monotonicity, as for C18).
func VP_C10_V2PriceFallsLinearly() {
	zzvp.Option("no-region-merge")
	var k Keeper
	zzvp.Wire(&k)
	prices := []string{"0.000001", "1", "1234567.891234567891234567", "1000000000000"}
	horizons := []int64{1, 33, 3600, 86400, 1000000000}
	p0 := sdk.MustNewDecFromStr(prices[zzvp.Choose(len(prices))])
	T := horizons[zzvp.Choose(len(horizons))]
	inst := []int64{0, 1, T / 2, T - 1, T}
	g := inst[zzvp.Choose(len(inst))]
	if g < 0 {
		g = 0
	}
	t := zzvp.AnyInt64()
	zzvp.Assume(zzvp.And(t >= 0, t <= T))
	pg := k.GetPriceFromLinearDecreaseFunction(p0, sdk.NewInt(T), sdk.NewInt(g))
	pt := k.GetPriceFromLinearDecreaseFunction(p0, sdk.NewInt(T), sdk.NewInt(t))
	zzvp.Reach("priced")
	zzvp.Assert(zzvp.Implies(t >= g, pt.LTE(pg)), "later-price-not-higher")
	zzvp.Assert(zzvp.Implies(t <= g, pt.GTE(pg)), "earlier-price-not-lower")
	zzvp.Assert(zzvp.And(pt.LTE(p0), !pt.IsNegative()), "price-between-zero-and-start-price")
	p00 := k.GetPriceFromLinearDecreaseFunction(p0, sdk.NewInt(T), sdk.NewInt(0))
	zzvp.Assert(p00.Equal(p0), "price-at-start-is-the-start-price")
}
