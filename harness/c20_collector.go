//vp:target x/collector/zz_vp_c20.go
//vp:load ./app
//go:build verif

package collector

import (
	"github.com/comdex-official/comdex/x/collector/keeper"
	"github.com/comdex-official/comdex/x/collector/types"
	"github.com/comdex-official/comdex/zzvp"
)

// C20 (collector module): export followed by import into an empty store carries every stored record over.
// Closed world: the source store holds exactly the records written here by the module's own setters (arbitrary
// contents); the real ExportGenesis and InitGenesis run; the destination store is read back with the real getters.
func VP_C20_CollectorNetFeesRoundTrip() {
	var k keeper.Keeper
	zzvp.Wire(&k)
	ctx := zzvp.EmptyCtx()
	app, asset := zzvp.AnyUint64(), zzvp.AnyUint64()
	fee := zzvp.AnySdkInt()
	zzvp.Assume(!fee.IsNegative())
	_ = k.SetNetFeeCollectedData(ctx, app, asset, fee)
	twoRecords := zzvp.Thorough()
	app2, asset2 := zzvp.AnyUint64(), zzvp.AnyUint64()
	fee2 := zzvp.AnySdkInt()
	if twoRecords {
		zzvp.Assume(zzvp.And(!fee2.IsNegative(), zzvp.Or(app2 != app, asset2 != asset)))
		_ = k.SetNetFeeCollectedData(ctx, app2, asset2, fee2)
	}
	ctx2 := zzvp.EmptyCtx()
	panicked := zzvp.Try(func() {
		g := ExportGenesis(ctx, k)
		InitGenesis(ctx2, k, g)
	})
	zzvp.Reach("round-trip-done")
	zzvp.Assert(!panicked, "export-and-import-do-not-panic")
	if panicked {
		return
	}
	got, found := k.GetNetFeeCollectedData(ctx2, app, asset)
	zzvp.Assert(found, "net-fee-record-carried-over")
	zzvp.Assert(zzvp.ZI(got.NetFeesCollected).Equal(zzvp.ZI(fee)), "net-fee-amount-preserved")
	if twoRecords {
		got2, found2 := k.GetNetFeeCollectedData(ctx2, app2, asset2)
		zzvp.Assert(zzvp.And(found2, zzvp.ZI(got2.NetFeesCollected).Equal(zzvp.ZI(fee2))), "second-net-fee-record-preserved")
	}
}

func VP_C20_CollectorMappingsRoundTrip() {
	var k keeper.Keeper
	zzvp.Wire(&k)
	ctx := zzvp.EmptyCtx()
	var m types.AppToAssetIdCollectorMapping
	zzvp.AnyOf(&m)
	k.SetAppidToAssetCollectorMapping(ctx, m)
	var a types.AppAssetIdToAuctionLookupTable
	zzvp.AnyOf(&a)
	k.SetGenAuctionMappingForApp(ctx, a)
	var d types.AppToDenomsMapping
	zzvp.AnyOf(&d)
	k.SetAppToDenomsMapping(ctx, d.AppId, d)
	g := ExportGenesis(ctx, k)
	ctx2 := zzvp.EmptyCtx()
	InitGenesis(ctx2, k, g)
	zzvp.Reach("round-trip-done")
	m2, okM := k.GetAppidToAssetCollectorMapping(ctx2, m.AppId, m.AssetId)
	zzvp.Assert(zzvp.And(okM, m2.AppId == m.AppId, m2.AssetId == m.AssetId), "collector-mapping-carried-over")
	if okM && m.Collector != nil && m2.Collector != nil {
		zzvp.Assert(zzvp.And(zzvp.ZI(m2.Collector.CollectedStabilityFee).Equal(zzvp.ZI(m.Collector.CollectedStabilityFee)), zzvp.ZI(m2.Collector.CollectedClosingFee).Equal(zzvp.ZI(m.Collector.CollectedClosingFee)),
			zzvp.ZI(m2.Collector.CollectedOpeningFee).Equal(zzvp.ZI(m.Collector.CollectedOpeningFee)), zzvp.ZI(m2.Collector.LiquidationRewardsCollected).Equal(zzvp.ZI(m.Collector.LiquidationRewardsCollected))), "collected-fee-breakdown-preserved")
	}
	a2, okA := k.GetAuctionMappingForApp(ctx2, a.AppId, a.AssetId)
	zzvp.Assert(zzvp.And(okA, a2.AppId == a.AppId, a2.AssetId == a.AssetId, a2.IsSurplusAuction == a.IsSurplusAuction, a2.IsDebtAuction == a.IsDebtAuction,
		a2.IsDistributor == a.IsDistributor, a2.IsAuctionActive == a.IsAuctionActive, a2.AssetOutOraclePrice == a.AssetOutOraclePrice, a2.AssetOutPrice == a.AssetOutPrice), "auction-lookup-carried-over")
	d2, okD := k.GetAppToDenomsMapping(ctx2, d.AppId)
	zzvp.Assert(zzvp.And(okD, d2.AppId == d.AppId, len(d2.AssetIds) == len(d.AssetIds)), "app-denoms-mapping-carried-over")
}
