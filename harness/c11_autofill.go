//vp:target x/auctionsV2/keeper/zz_vp_c11a.go
//vp:load ./app
//go:build verif

package keeper

import (
	sdk "github.com/cosmos/cosmos-sdk/types"

	"github.com/comdex-official/comdex/x/auctionsV2/types"
	"github.com/comdex-official/comdex/zzvp"
)

const vpPlaceDutch = "(github.com/comdex-official/comdex/x/auctionsV2/keeper.Keeper).PlaceDutchAuctionBid"

// C11 (automatic fill of limit bids by the end-blocker): when a resting limit bid is used to bid in a running Dutch
// auction, the recorded total of limit bids for that asset pair moves exactly with the bidder's recorded deposit -
// whether the deposit is larger than, equal to or smaller than the auction's remaining debt. Closed world: one
// auction whose posted price is 50 % below its oracle price (premium bucket 50), one limit bid in that bucket, the
// protocol total covering it. Placing the bid itself is a spy stub (any id, or failure: then the whole step is rolled
// back by ApplyFuncIfNoError).
func VP_C11_LimitBidAutoFillKeepsTheRecordedTotal() {
	zzvp.Stub(vpPlaceDutch)
	var k Keeper
	zzvp.Wire(&k)
	ctx := zzvp.ClosedCtx()
	var a types.Auction
	zzvp.AnyOf(&a)
	a.AuctionType = true
	a.CollateralTokenOraclePrice = sdk.NewDec(2)
	a.CollateralTokenAuctionPrice = sdk.NewDec(1)
	zzvp.Assume(zzvp.And(a.AuctionId != 0, a.CollateralAssetId != a.DebtAssetId, a.DebtToken.Amount.IsPositive()))
	_ = k.SetAuction(ctx, a)
	bidder := zzvp.AnyString()
	_, errA := sdk.AccAddressFromBech32(bidder)
	zzvp.Assume(errA == nil)
	dep := zzvp.AnySdkInt()
	zzvp.Assume(dep.IsPositive())
	premium := sdk.NewInt(50)
	bid := types.LimitOrderBid{LimitOrderBiddingId: 1, BidderAddress: bidder, CollateralTokenId: a.CollateralAssetId, DebtTokenId: a.DebtAssetId,
		PremiumDiscount: premium, DebtToken: sdk.Coin{Denom: a.DebtToken.Denom, Amount: dep}}
	k.SetUserLimitBidData(ctx, bid, a.DebtAssetId, a.CollateralAssetId, premium)
	k.UpdateUserLimitBidDataForAddress(ctx, bid, true)
	total := zzvp.AnySdkInt()
	zzvp.Assume(total.GTE(dep))
	_ = k.SetLimitBidProtocolData(ctx, types.LimitBidProtocolData{CollateralAssetId: a.CollateralAssetId, DebtAssetId: a.DebtAssetId, BidValue: total, MaxDiscount: sdk.NewDec(100)})
	err := k.LimitOrderBid(ctx)
	zzvp.Reach("end-block-fill-returned")
	zzvp.Assert(err == nil, "fill-pass-reports-no-error")
	post, hasPost := k.GetUserLimitBidData(ctx, a.DebtAssetId, a.CollateralAssetId, premium, bidder)
	prot, _ := k.GetLimitBidProtocolDataByAssetID(ctx, a.DebtAssetId, a.CollateralAssetId)
	left := zzvp.ZN(0)
	if hasPost {
		left = zzvp.ZI(post.DebtToken.Amount)
	}
	zzvp.Assert(zzvp.ZI(prot.BidValue).Sub(zzvp.ZI(total)).Equal(left.Sub(zzvp.ZI(dep))), "recorded-total-moves-with-the-individual-deposit")
	if zzvp.SpyCount(vpPlaceDutch) > 0 && zzvp.SpyErrNil(vpPlaceDutch, 0) {
		zzvp.Reach("limit-bid-used")
		used := zzvp.IteZ(dep.GTE(a.DebtToken.Amount), zzvp.ZI(a.DebtToken.Amount), zzvp.ZI(dep))
		zzvp.Assert(zzvp.ZI(dep).Sub(left).Equal(used), "deposit-falls-by-what-was-bid")
	} else {
		zzvp.Assert(left.Equal(zzvp.ZI(dep)), "no-bid-no-change")
	}
}
