//vp:target x/rewards/zz_vp_c15.go
//vp:load ./app
//go:build verif

package rewards

import (
	abci "github.com/cometbft/cometbft/abci/types"

	"github.com/comdex-official/comdex/x/rewards/keeper"
	"github.com/comdex-official/comdex/zzvp"
)

// C15 (rewards / incentives hook): every part of the hook's unit of work may succeed, report failure or PANIC
// (contract stubs with a panic outcome); rewards.BeginBlocker returns normally in every case.
func VP_C15_RewardsBeginBlockerContainsItsWork() {
	for _, f := range []string{"TriggerAndUpdateEpochInfos", "DistributeExtRewardLocker", "DistributeExtRewardVault", "DistributeExtRewardLend", "CombinePSMUserPositions", "DistributeExtRewardStableVault"} {
		zzvp.StubMayPanic("(github.com/comdex-official/comdex/x/rewards/keeper.Keeper)." + f)
	}
	var k keeper.Keeper
	zzvp.Wire(&k)
	ctx := zzvp.Ctx()
	panicked := zzvp.Try(func() { BeginBlocker(ctx, abci.RequestBeginBlock{}, k) })
	zzvp.Reach("hook-returned")
	zzvp.Assert(!panicked, "no-panic-escapes-the-rewards-hook")
}
