//vp:target x/liquidity/amm/zz_vp_c05.go
//vp:props C05 C16
//go:build verif

package amm

import (
	sdkmath "cosmossdk.io/math"

	"github.com/comdex-official/comdex/zzvp"
)

// Prices come from a boundary-heavy grid of valid ticks (tick precision 3/4); amounts are symbolic. With a concrete
// price every product price*amount in the matching code is linear in the symbolic amounts.
var vpPriceGrid = []string{
	"1", "0.5", "0.01", "1.5", "0.3333", "3", "0.9999", "1.001", "12340000", "0.00000000000001", "99990000000000000000",
}

const vpQuickPrices = 5

func vpMatchPrice() sdkmath.LegacyDec { return vpGridPrice(vpQuickPrices) }

func vpGridPrice(quick int) sdkmath.LegacyDec { return vpGridPriceN(quick, len(vpPriceGrid)) }

func vpGridPriceN(quick, thorough int) sdkmath.LegacyDec {
	n := quick
	if zzvp.Thorough() {
		n = thorough
	}
	return sdkmath.LegacyMustNewDecFromStr(vpPriceGrid[zzvp.Choose(n)])
}

// an order in any consistent state it can have between two fills
func vpAnyOrder(dir OrderDirection) *BaseOrder {
	o := &BaseOrder{Direction: dir, Price: sdkmath.LegacyOneDec(),
		Amount: zzvp.AnySdkInt(), OfferCoinAmount: zzvp.AnySdkInt(), OpenAmount: zzvp.AnySdkInt(),
		PaidOfferCoinAmount: zzvp.AnySdkInt(), ReceivedDemandCoinAmount: zzvp.AnySdkInt()}
	zzvp.Assume(o.Amount.IsPositive() && o.Amount.LTE(MaxCoinAmount))
	zzvp.Assume(!o.OpenAmount.IsNegative() && o.OpenAmount.LTE(o.Amount))
	zzvp.Assume(!o.OfferCoinAmount.IsNegative() && o.OfferCoinAmount.LTE(MaxCoinAmount))
	zzvp.Assume(!o.PaidOfferCoinAmount.IsNegative() && o.PaidOfferCoinAmount.LTE(o.OfferCoinAmount))
	zzvp.Assume(!o.ReceivedDemandCoinAmount.IsNegative() && o.ReceivedDemandCoinAmount.LTE(MaxCoinAmount))
	if dir == Sell {
		// a sell order offers the base coin: what is still offered covers what is still open
		zzvp.Assume(o.OfferCoinAmount.Sub(o.PaidOfferCoinAmount).GTE(o.OpenAmount))
	}
	return o
}

type vpSnap struct{ open, paid, recv sdkmath.Int }

func vpSnapOf(o *BaseOrder) vpSnap {
	return vpSnap{o.OpenAmount, o.PaidOfferCoinAmount, o.ReceivedDemandCoinAmount}
}

// per-order laws of one or more fills at price p (k = the number of individual fills the order took part in is 1 here)
func vpFillLaws(o *BaseOrder, before vpSnap, p sdkmath.LegacyDec, pfx string) (filled sdkmath.Int) {
	Z, e18 := zzvp.ZI, zzvp.Pow10(18)
	filled = before.open.Sub(o.OpenAmount)
	paid := o.PaidOfferCoinAmount.Sub(before.paid)
	recv := o.ReceivedDemandCoinAmount.Sub(before.recv)
	zzvp.Assert(!filled.IsNegative() && !o.OpenAmount.IsNegative(), pfx+"never-filled-beyond-its-amount")
	zzvp.Assert(o.PaidOfferCoinAmount.LTE(o.OfferCoinAmount), pfx+"never-pays-more-than-its-offer-coin")
	pq := zzvp.ZD(p).Mul(Z(filled)) // price*filled*1e18
	if o.Direction == Buy {
		zzvp.Assert(recv.Equal(filled), pfx+"buyer-receives-the-base-amount-filled")
		// pays ceil(p*filled): p*filled <= paid < p*filled + 1
		zzvp.Assert(zzvp.And(Z(paid).Mul(e18).GTE(pq), Z(paid).Sub(zzvp.ZN(1)).Mul(e18).LT(pq)), pfx+"buyer-pays-price-times-amount-rounded-up")
	} else {
		zzvp.Assert(paid.Equal(filled), pfx+"seller-pays-the-base-amount-filled")
		zzvp.Assert(zzvp.And(Z(recv).Mul(e18).LTE(pq), Z(recv).Add(zzvp.ZN(1)).Mul(e18).GT(pq)), pfx+"seller-receives-price-times-amount-rounded-down")
	}
	zzvp.Assert(zzvp.Implies(filled.IsPositive(), recv.IsPositive()), pfx+"a-matched-order-receives-a-positive-amount")
	return filled
}

// C05, one individual fill: FillOrder applied to an order in any consistent state, any amount it accepts.
func VP_C05_FillOrderStep() {
	zzvp.Option("no-region-merge")
	dir := Buy
	if zzvp.AnyBool() {
		dir = Sell
	}
	o := vpAnyOrder(dir)
	p := vpMatchPrice()
	amt := zzvp.AnySdkInt()
	zzvp.Assume(amt.IsPositive() && amt.LTE(MaxCoinAmount))
	// callers only fill amounts whose quote value is at least one unit (MatchableAmount / DistributeOrderAmountToOrders)
	zzvp.Assume(dir == Buy || p.MulInt(amt).TruncateInt().IsPositive())
	before := vpSnapOf(o)
	var diff sdkmath.Int
	if zzvp.Try(func() { diff = FillOrder(o, amt, p) }) {
		zzvp.Reach("refuses-more-than-matchable")
		zzvp.Assert(amt.GT(MatchableAmount(o, p)), "panics-only-above-the-matchable-amount")
		zzvp.Assert(o.OpenAmount.Equal(before.open) && o.PaidOfferCoinAmount.Equal(before.paid) && o.ReceivedDemandCoinAmount.Equal(before.recv), "refused-fill-changes-nothing")
		return
	}
	zzvp.Reach("filled")
	filled := vpFillLaws(o, before, p, "")
	zzvp.Assert(filled.Equal(amt), "open-amount-reduced-by-the-filled-amount")
	if dir == Buy {
		zzvp.Assert(diff.Equal(o.PaidOfferCoinAmount.Sub(before.paid)), "quote-diff-is-what-the-buyer-paid")
	} else {
		zzvp.Assert(diff.Neg().Equal(o.ReceivedDemandCoinAmount.Sub(before.recv)), "quote-diff-is-minus-what-the-seller-received")
	}
}

// C05, one buy and one sell filled by the same amount at the same price: base conserved, quote dust in [0, 1] (< 2 fills),
// neither trades worse than its limit by more than one quote unit.
func VP_C05_PairOfFills() {
	zzvp.Option("no-region-merge")
	b, s := vpAnyOrder(Buy), vpAnyOrder(Sell)
	p := vpMatchPrice()
	amt := zzvp.AnySdkInt()
	zzvp.Assume(amt.IsPositive() && amt.LTE(MatchableAmount(b, p)) && amt.LTE(MatchableAmount(s, p)))
	zzvp.Assume(p.MulInt(amt).TruncateInt().IsPositive())
	bb, sb := vpSnapOf(b), vpSnapOf(s)
	d := FillOrder(b, amt, p).Add(FillOrder(s, amt, p))
	zzvp.Reach("pair-filled")
	vpFillLaws(b, bb, p, "buy-")
	vpFillLaws(s, sb, p, "sell-")
	zzvp.Assert(b.ReceivedDemandCoinAmount.Sub(bb.recv).Equal(s.PaidOfferCoinAmount.Sub(sb.paid)), "base-received-by-buyer-equals-base-paid-by-seller")
	zzvp.Assert(!d.IsNegative() && d.LT(sdkmath.NewInt(2)), "quote-dust-nonnegative-and-below-number-of-fills")
	zzvp.Assert(d.Equal(b.PaidOfferCoinAmount.Sub(bb.paid).Sub(s.ReceivedDemandCoinAmount.Sub(sb.recv))), "quote-diff-is-paid-minus-received")
}

func vpTickOrders(dir OrderDirection, n int) ([]Order, []*BaseOrder) {
	var os []Order
	var bs []*BaseOrder
	for i := 0; i < n; i++ {
		o := vpAnyOrder(dir)
		os = append(os, o)
		bs = append(bs, o)
	}
	return os, bs
}

// C05, pro-rata distribution with remainder pass: a group of orders of one tick takes exactly the amount the other side
// was given (that is what makes base coin conserved across the two sides), no order beyond its matchable amount,
// every order that is touched receives something.
func vpDistribute(dir OrderDirection, n int) {
	zzvp.Option("no-region-merge")
	os, bs := vpTickOrders(dir, n)
	// quick tier: prices 1, 0.5 and 0.01 (the distribution loops fork a lot); thorough: six prices for two orders
	// (the whole grid of eleven took 19 minutes for the buy side alone), two prices for three orders
	p := vpGridPriceN(3, 6)
	amt := zzvp.AnySdkInt()
	total := TotalMatchableAmount(os, p)
	// the callers' precondition (DistributeOrderAmountToTick): 0 < amt < matchable amount of the group
	zzvp.Assume(amt.IsPositive() && amt.LT(total))
	// ... and the tick as a whole is only given an amount worth at least one quote unit (FindMatchableAmountAtSinglePrice)
	zzvp.Assume(p.MulInt(amt).TruncateInt().IsPositive())
	var before []vpSnap
	var cap []sdkmath.Int
	for _, o := range bs {
		before = append(before, vpSnapOf(o))
		cap = append(cap, MatchableAmount(o, p))
	}
	SortOrders(os)
	diff := DistributeOrderAmountToOrders(os, amt, p)
	zzvp.Reach("distributed")
	sum, q := sdkmath.ZeroInt(), sdkmath.ZeroInt()
	for i, o := range bs {
		f := vpFillLaws(o, before[i], p, "")
		zzvp.Assert(f.LTE(cap[i]), "never-filled-beyond-its-matchable-amount")
		sum = sum.Add(f)
		if dir == Buy {
			q = q.Add(o.PaidOfferCoinAmount.Sub(before[i].paid))
		} else {
			q = q.Sub(o.ReceivedDemandCoinAmount.Sub(before[i].recv))
		}
	}
	// The group must take exactly what the other side was given. Known finding D21 (sell side): an order whose share is
	// worth less than one quote unit is dropped and the others may be unable to absorb its share. The two assertions
	// before the exact one bound that defect (never more than distributed; the shortfall is worth less than one quote
	// unit per order), so that any other way of losing base coin is still reported.
	zzvp.Assert(sum.LTE(amt), "the-group-never-takes-more-than-the-distributed-amount")
	zzvp.Assert(zzvp.ZD(p).Mul(zzvp.ZI(amt.Sub(sum))).LT(zzvp.Pow10(18).Mul(zzvp.ZN(int64(n)))), "shortfall-worth-less-than-one-quote-unit-per-order")
	zzvp.Assert(sum.Equal(amt), "the-group-takes-exactly-the-distributed-amount")
	zzvp.Assert(diff.Equal(q), "quote-diff-is-the-sum-over-the-fills")
}

func VP_C05_DistributeSell2() { vpDistribute(Sell, 2) }
func VP_C05_DistributeBuy2()  { vpDistribute(Buy, 2) }
// Three orders in the group (thorough tier). Fully symbolic, three orders ran for more than an hour per side; here two
// untouched orders have amounts from a grid, the third is an untouched order of any amount up to 10^9 and the distributed
// amount is symbolic; two prices (with a third order in any consistent state the run did not finish in 40 minutes).
func vpDistribute3(dir OrderDirection) {
	if !zzvp.Thorough() {
		zzvp.Option("thorough-only")
		return
	}
	zzvp.Option("no-region-merge")
	p := vpGridPriceN(2, 2)
	grid := [][2]int64{{1000, 1000}, {300, 700}, {1, 1000000}}
	g := grid[zzvp.Choose(len(grid))]
	fresh := func(a sdkmath.Int) *BaseOrder { return NewBaseOrder(dir, p, a, OfferCoinAmount(dir, p, a)) }
	c := zzvp.AnySdkInt()
	zzvp.Assume(c.IsPositive() && c.LTE(sdkmath.NewInt(1000000000)))
	bs := []*BaseOrder{fresh(sdkmath.NewInt(g[0])), fresh(sdkmath.NewInt(g[1])), fresh(c)}
	var os []Order
	for _, o := range bs {
		os = append(os, o)
	}
	amt := zzvp.AnySdkInt()
	zzvp.Assume(amt.IsPositive() && amt.LT(TotalMatchableAmount(os, p)))
	zzvp.Assume(p.MulInt(amt).TruncateInt().IsPositive())
	var before []vpSnap
	var cap []sdkmath.Int
	for _, o := range bs {
		before = append(before, vpSnapOf(o))
		cap = append(cap, MatchableAmount(o, p))
	}
	SortOrders(os)
	diff := DistributeOrderAmountToOrders(os, amt, p)
	zzvp.Reach("distributed-3")
	sum, q := sdkmath.ZeroInt(), sdkmath.ZeroInt()
	for i, o := range bs {
		f := vpFillLaws(o, before[i], p, "")
		zzvp.Assert(f.LTE(cap[i]), "never-filled-beyond-its-matchable-amount")
		sum = sum.Add(f)
		if dir == Buy {
			q = q.Add(o.PaidOfferCoinAmount.Sub(before[i].paid))
		} else {
			q = q.Sub(o.ReceivedDemandCoinAmount.Sub(before[i].recv))
		}
	}
	zzvp.Assert(sum.LTE(amt), "the-group-never-takes-more-than-the-distributed-amount")
	zzvp.Assert(zzvp.ZD(p).Mul(zzvp.ZI(amt.Sub(sum))).LT(zzvp.Pow10(18).Mul(zzvp.ZN(3))), "shortfall-worth-less-than-one-quote-unit-per-order")
	zzvp.Assert(sum.Equal(amt), "the-group-takes-exactly-the-distributed-amount") // sell side: known finding D21
	zzvp.Assert(diff.Equal(q), "quote-diff-is-the-sum-over-the-fills")
}

func VP_C05_DistributeSell3() { vpDistribute3(Sell) }
func VP_C05_DistributeBuy3()  { vpDistribute3(Buy) }

// C16: the final loop of DistributeOrderAmountToOrders ranges over a Go map. Its result must not depend on the
// iteration order: the same symbolic inputs are run under insertion order and under the reverse order and every
// observable output is compared (2-safety by self-composition; for two entries these are all orders).
func vpOrderIndependent(n int) {
	zzvp.Option("no-region-merge") // the second run then follows the first one's branch decisions without forking
	dir := Buy
	if zzvp.AnyBool() {
		dir = Sell
	}
	os, bs := vpTickOrders(dir, n)
	p := vpGridPrice(2)
	amt := zzvp.AnySdkInt()
	zzvp.Assume(amt.IsPositive() && amt.LT(TotalMatchableAmount(os, p)))
	var os2 []Order
	var bs2 []*BaseOrder
	for _, o := range bs {
		c := new(BaseOrder) // (a fresh object per order; the module's Go version still shares loop variables)
		*c = *o
		os2 = append(os2, c)
		bs2 = append(bs2, c)
	}
	SortOrders(os)
	SortOrders(os2)
	zzvp.ReverseMapOrder(false)
	d1 := DistributeOrderAmountToOrders(os, amt, p)
	zzvp.ReverseMapOrder(true)
	d2 := DistributeOrderAmountToOrders(os2, amt, p)
	zzvp.ReverseMapOrder(false)
	zzvp.Reach("both-orders-ran")
	zzvp.Assert(d1.Equal(d2), "quote-diff-independent-of-map-order")
	for i := range bs {
		zzvp.Assert(bs[i].OpenAmount.Equal(bs2[i].OpenAmount) && bs[i].PaidOfferCoinAmount.Equal(bs2[i].PaidOfferCoinAmount) &&
			bs[i].ReceivedDemandCoinAmount.Equal(bs2[i].ReceivedDemandCoinAmount), "fills-independent-of-map-order")
	}
}

func VP_C16_DistributeOrderIndependent() { vpOrderIndependent(2) }

// Three orders: a dropped order plus two that share a remainder is the smallest case in which the order of a derived
// list matters. Fully symbolic, three orders do not finish (more than an hour); here two untouched orders have amounts
// from a small grid and the third order and the distributed amount are symbolic. Insertion order vs its reverse.
func VP_C16_DistributeOrderIndependent3() {
	zzvp.Option("no-region-merge")
	// quick tier: sell orders at price 0.5 (the side on which a share can be worth less than one quote unit and its
	// order is dropped), two amount pairs; thorough: both sides and a third amount pair (the full cross product of two
	// prices and six pairs ran for more than an hour and is not registered)
	dir := Sell
	p := sdkmath.LegacyMustNewDecFromStr("0.5")
	grid := [][2]int64{{1000, 1000}, {300, 700}}
	if zzvp.Thorough() {
		if zzvp.AnyBool() {
			dir = Buy
		}
		grid = append(grid, [2]int64{1000, 999})
	}
	g := grid[zzvp.Choose(len(grid))]
	fresh := func(a sdkmath.Int) *BaseOrder { return NewBaseOrder(dir, p, a, OfferCoinAmount(dir, p, a)) }
	c := zzvp.AnySdkInt()
	zzvp.Assume(c.IsPositive() && c.LTE(sdkmath.NewInt(1000000000)))
	bs := []*BaseOrder{fresh(sdkmath.NewInt(g[0])), fresh(sdkmath.NewInt(g[1])), fresh(c)}
	amt := zzvp.AnySdkInt()
	var os, os2 []Order
	var bs2 []*BaseOrder
	for _, o := range bs {
		os = append(os, o)
		k := new(BaseOrder)
		*k = *o
		os2 = append(os2, k)
		bs2 = append(bs2, k)
	}
	zzvp.Assume(amt.IsPositive() && amt.LT(TotalMatchableAmount(os, p)))
	SortOrders(os)
	SortOrders(os2)
	zzvp.ReverseMapOrder(false)
	d1 := DistributeOrderAmountToOrders(os, amt, p)
	zzvp.ReverseMapOrder(true)
	d2 := DistributeOrderAmountToOrders(os2, amt, p)
	zzvp.ReverseMapOrder(false)
	zzvp.Reach("both-orders-ran-3")
	zzvp.Assert(d1.Equal(d2), "quote-diff-independent-of-map-order")
	for i := range bs {
		zzvp.Assert(bs[i].OpenAmount.Equal(bs2[i].OpenAmount) && bs[i].PaidOfferCoinAmount.Equal(bs2[i].PaidOfferCoinAmount) &&
			bs[i].ReceivedDemandCoinAmount.Equal(bs2[i].ReceivedDemandCoinAmount), "fills-independent-of-map-order")
	}
}

// an order with a batch age (BaseOrder always answers 0); everything else is the real BaseOrder
type vpBatchOrder struct {
	*BaseOrder
	Batch uint64
}

func (o *vpBatchOrder) GetBatchID() uint64 { return o.Batch }

// C05, one tick with orders of one or two batch ages (older groups are served first, the last served group pro rata):
// the tick takes exactly the amount the other side was given - never more - and every order stays within its limits.
func vpDistributeToTick(dir OrderDirection) {
	zzvp.Option("no-region-merge")
	ages := [][2]uint64{{1, 1}, {1, 2}, {2, 1}}[zzvp.Choose(3)]
	var os []Order
	var bs []*BaseOrder
	for i := 0; i < 2; i++ {
		b := vpAnyOrder(dir)
		bs = append(bs, b)
		os = append(os, &vpBatchOrder{BaseOrder: b, Batch: ages[i]})
	}
	p := vpGridPriceN(2, 4)
	amt := zzvp.AnySdkInt()
	total := TotalMatchableAmount(os, p)
	// callers (MatchAtSinglePrice, Match): 0 < amt <= matchable amount of the tick, worth at least one quote unit
	zzvp.Assume(amt.IsPositive() && amt.LTE(total))
	zzvp.Assume(p.MulInt(amt).TruncateInt().IsPositive())
	var before []vpSnap
	var cap []sdkmath.Int
	for _, o := range bs {
		before = append(before, vpSnapOf(o))
		cap = append(cap, MatchableAmount(o, p))
	}
	diff := DistributeOrderAmountToTick(&orderBookTick{price: p, orders: os}, amt, p)
	zzvp.Reach("tick-distributed")
	sum, q := sdkmath.ZeroInt(), sdkmath.ZeroInt()
	for i, o := range bs {
		f := vpFillLaws(o, before[i], p, "")
		zzvp.Assert(f.LTE(cap[i]), "never-filled-beyond-its-matchable-amount")
		sum = sum.Add(f)
		if dir == Buy {
			q = q.Add(o.PaidOfferCoinAmount.Sub(before[i].paid))
		} else {
			q = q.Sub(o.ReceivedDemandCoinAmount.Sub(before[i].recv))
		}
	}
	zzvp.Assert(sum.LTE(amt), "the-tick-never-takes-more-than-the-distributed-amount")
	zzvp.Assert(zzvp.ZD(p).Mul(zzvp.ZI(amt.Sub(sum))).LT(zzvp.Pow10(18).Mul(zzvp.ZN(2))), "shortfall-worth-less-than-one-quote-unit-per-order")
	zzvp.Assert(sum.Equal(amt), "the-tick-takes-exactly-the-distributed-amount") // sell side: known finding D21
	zzvp.Assert(diff.Equal(q), "quote-diff-is-the-sum-over-the-fills")
}

func VP_C05_DistributeToTickSell() { vpDistributeToTick(Sell) }
func VP_C05_DistributeToTickBuy()  { vpDistributeToTick(Buy) }
