//vp:target x/liquidationsV2/types/zz_vp_c09.go
//go:build verif

package types

import "github.com/comdex-official/comdex/zzvp"

// C09/C15: the sweep window is always a valid sub-range of the position list (otherwise list[start:end] panics inside
// the unwrapped part of BeginBlocker) and never wider than the batch size.
func VP_C09_V2SweepWindowIsValid() {
	l, o, b := zzvp.AnyInt(), zzvp.AnyInt(), zzvp.AnyInt()
	zzvp.Assume(l >= 0)
	s, e := GetSliceStartEndForLiquidations(l, o, b)
	zzvp.Reach("returned")
	zzvp.Assert(0 <= s && s <= e && e <= l, "0<=start<=end<=len")
	zzvp.Assert(b < 0 || zzvp.ZN(int64(e)).Sub(zzvp.ZN(int64(s))).LTE(zzvp.ZN(int64(b))), "window<=batch")
	if 0 <= o && o < l && b > 0 {
		zzvp.Reach("progress-case")
		zzvp.Assert(s == o && e > s, "window-starts-at-offset-and-makes-progress")
	}
}
