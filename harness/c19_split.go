//vp:target x/rewards/keeper/zz_vp_c19.go
//go:build verif

package keeper

import "github.com/comdex-official/comdex/zzvp"

// C19: the per-epoch allocations of a gauge sum exactly to its deposit and differ by at most one unit.
// Precondition amount >= epochs is what MsgCreateGauge.ValidateBasic enforces.
func VP_C19_SplitSumsToDeposit() {
	maxE := 8
	if zzvp.Thorough() {
		maxE = 16
	}
	E := uint64(1 + zzvp.Choose(maxE))
	amount := zzvp.AnyUint64()
	zzvp.Assume(amount >= E)
	splits := SplitTotalAmountPerEpoch(amount, E)
	zzvp.Reach("split-returned")
	zzvp.Assert(uint64(len(splits)) == E, "one-allocation-per-epoch")
	if uint64(len(splits)) != E {
		return
	}
	sum := zzvp.ZN(0)
	ok := true
	for _, s := range splits {
		sum = sum.Add(zzvp.ZU(s))
		// each allocation is floor(amount/E) or floor(amount/E)+1
		ok = ok && zzvp.ZU(s).Mul(zzvp.ZU(E)).LTE(zzvp.ZU(amount).Add(zzvp.ZU(E))) && zzvp.ZU(s).Add(zzvp.ZN(1)).Mul(zzvp.ZU(E)).GT(zzvp.ZU(amount))
	}
	zzvp.Assert(sum.Equal(zzvp.ZU(amount)), "allocations-sum-to-deposit")
	zzvp.Assert(ok, "allocations-within-one-unit-of-even-share")
}
