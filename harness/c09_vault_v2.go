//vp:target x/liquidationsV2/keeper/zz_vp_c09_vault.go
//vp:props C09 C14
//vp:load ./app
//go:build verif

package keeper

import (
	assetkeeper "github.com/comdex-official/comdex/x/asset/keeper"
	auctionsV2types "github.com/comdex-official/comdex/x/auctionsV2/types"
	esmkeeper "github.com/comdex-official/comdex/x/esm/keeper"
	vaultkeeper "github.com/comdex-official/comdex/x/vault/keeper"
	vaulttypes "github.com/comdex-official/comdex/x/vault/types"
	"github.com/comdex-official/comdex/zzvp"
)

const (
	vpVaultCR       = "(github.com/comdex-official/comdex/x/vault/keeper.Keeper).CalculateCollateralizationRatio"
	vpVaultInterest = "(github.com/comdex-official/comdex/x/rewards/keeper.Keeper).CalculateVaultInterest"
	vpCreateLocked  = "(github.com/comdex-official/comdex/x/liquidationsV2/keeper.Keeper).CreateLockedVault"
)

type vpVaultLiq struct {
	ratios   int
	crIn     zzvp.Z
	crOut    zzvp.Z
	v        vaulttypes.Vault
	found    bool
	seized   int
	err      error
	esmOn    bool
	breaker  bool
	denomIn  string
	minCr    zzvp.Z
	ratioArg zzvp.Z
}

// One liquidation decision for an arbitrary vault id from an arbitrary pre-state (sweep and MsgLiquidate share it).
// The collateralisation ratio (oracle prices) and the interest booking are contract stubs (any value; the same
// arguments give the same value), CreateLockedVault is a spy stub: seizure = it was called.
func vpVaultLiquidation() (w vpVaultLiq) {
	zzvp.Stub(vpVaultCR)
	zzvp.Stub(vpVaultInterest)
	zzvp.Stub(vpCreateLocked)
	var k Keeper
	zzvp.Wire(&k)
	var vk vaultkeeper.Keeper
	zzvp.Wire(&vk)
	var ak assetkeeper.Keeper
	zzvp.Wire(&ak)
	var ek esmkeeper.Keeper
	zzvp.Wire(&ek)
	ctx := zzvp.Ctx()
	id := zzvp.AnyUint64()
	w.v, w.found = vk.GetVault(ctx, id)
	zzvp.Assume(zzvp.Implies(w.found, w.v.Id == id)) // stored under its own id (SetVault derives the key from the record)
	esm, esmFound := ek.GetESMStatus(ctx, w.v.AppId)
	w.esmOn = zzvp.And(esmFound, esm.Status)
	kl, _ := ek.GetKillSwitchData(ctx, w.v.AppId)
	w.breaker = kl.BreakerEnable
	ext, _ := ak.GetPairsVault(ctx, w.v.ExtendedPairVaultID)
	pair, _ := ak.GetPair(ctx, ext.PairId)
	assetIn, _ := ak.GetAsset(ctx, pair.AssetIn)
	w.denomIn = assetIn.Denom
	w.minCr = zzvp.ZD(ext.MinCr)
	zzvp.Mark()
	w.err = k.LiquidateIndividualVault(ctx, id, zzvp.AnyString(), zzvp.AnyBool())
	w.seized = zzvp.SpyCount(vpCreateLocked)
	w.ratios = zzvp.SpyCount(vpVaultCR)
	if w.ratios > 0 {
		w.crIn, w.crOut = zzvp.SpyArgZ(vpVaultCR, 0, 3), zzvp.SpyArgZ(vpVaultCR, 0, 4)
		w.ratioArg = zzvp.SpyResZ(vpVaultCR, 0, 0)
	}
	if w.seized > 0 {
		// the ratio the decision was taken on: the first one computed (before the interest booking)
		w.ratioArg = zzvp.SpyResZ(vpVaultCR, 0, 0)
	}
	return
}

// C09 safety (vaults, second generation): a vault is seized only if its collateral value / total debt (principal +
// interest + closing fee) is below the product's liquidation ratio; seizure moves exactly the recorded collateral
// from vault custody into auction custody and opens exactly one locked vault for it.
func VP_C09_V2VaultSeizedOnlyBelowItsRatio() {
	w := vpVaultLiquidation()
	zzvp.Reach("decision-made")
	zzvp.Assert(w.seized <= 1, "at-most-one-seizure-per-vault")
	if w.ratios > 0 {
		// what "the ratio" is: recorded collateral against principal + accrued interest + closing fee
		zzvp.Reach("ratio-asked-for")
		zzvp.Assert(w.crIn.Equal(zzvp.ZI(w.v.AmountIn)), "ratio-is-taken-over-the-recorded-collateral")
		zzvp.Assert(w.crOut.Equal(zzvp.ZI(w.v.AmountOut).Add(zzvp.ZI(w.v.InterestAccumulated)).Add(zzvp.ZI(w.v.ClosingFeeAccumulated))), "ratio-is-taken-over-principal-interest-and-closing-fee")
		if zzvp.SpyErrNil(vpVaultCR, 0) && w.ratioArg.LT(w.minCr) {
			// liveness of the decision: an unsafe vault is seized unless a later step reports failure
			zzvp.Reach("unsafe-vault")
			zzvp.Assert(zzvp.Or(w.seized == 1, w.err != nil), "an-unsafe-vault-is-seized-or-the-step-reports-failure")
		}
	}
	if w.seized == 0 {
		zzvp.Assert(zzvp.BalanceDelta(zzvp.ModuleAddr(vaulttypes.ModuleName), w.denomIn).IsZero(), "no-collateral-leaves-vault-custody-without-a-seizure")
		return
	}
	zzvp.Reach("seized")
	zzvp.Assert(w.found, "only-an-existing-vault-is-seized")
	zzvp.Assert(w.ratioArg.LT(w.minCr), "vault-seized-only-below-the-liquidation-ratio")
	if w.err == nil {
		zzvp.Reach("seizure-completed")
		zzvp.Assert(zzvp.BalanceDelta(zzvp.ModuleAddr(auctionsV2types.ModuleName), w.denomIn).Equal(w.v.AmountIn), "exactly-the-recorded-collateral-enters-auction-custody")
		zzvp.Assert(zzvp.BalanceDelta(zzvp.ModuleAddr(vaulttypes.ModuleName), w.denomIn).Equal(w.v.AmountIn.Neg()), "exactly-the-recorded-collateral-leaves-vault-custody")
	}
}

// C14 (liquidation): with the app's emergency shutdown or circuit breaker on, no vault is seized.
func VP_C14_V2VaultLiquidationStopsUnderEmergencyControls() {
	w := vpVaultLiquidation()
	zzvp.Reach("decision-made")
	if w.esmOn || w.breaker {
		zzvp.Reach("control-on")
		zzvp.Assert(w.seized == 0, "no-seizure-while-shutdown-or-breaker-is-on")
		zzvp.Assert(zzvp.Or(w.err != nil, !w.found), "liquidation-refused-while-shutdown-or-breaker-is-on")
	}
}
