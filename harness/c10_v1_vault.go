//vp:target x/auction/keeper/zz_vp_c10v.go
//vp:load ./app
//go:build verif

package keeper

import (
	sdk "github.com/cosmos/cosmos-sdk/types"
	authtypes "github.com/cosmos/cosmos-sdk/x/auth/types"

	auctiontypes "github.com/comdex-official/comdex/x/auction/types"
	"github.com/comdex-official/comdex/zzvp"
)

const (
	vpV1VClose   = "(github.com/comdex-official/comdex/x/auction/keeper.Keeper).CloseDutchAuction"
	vpV1VCollect = "(github.com/comdex-official/comdex/x/collector/keeper.Keeper).GetAmountFromCollector"
	vpV1VLoss    = "(github.com/comdex-official/comdex/x/auction/keeper.Keeper).SetProtocolStatistics"
)

// C10 (first-generation Dutch auction of a vault, one bid from an arbitrary running auction and pre-state): the bidder
// pays exactly the debt coins counted for the bid (never beyond the remaining target) and receives exactly the
// collateral sold (never beyond what the auction holds); the books move by the same amounts; when the target is reached
// the unsold collateral goes to the vault owner and the auction is closed once; when the collateral is sold out with
// debt left, the collector is asked for exactly the shortfall AFTER this bid (target - raised - paid) and the same
// number is booked as protocol loss, so that nothing unaccounted stays in custody. Price conversions are contract stubs
// (the posted-price bound is VP_C10_Conversion*); the closing routine and the collector draw are spy stubs.
func VP_C10_V1VaultDutchBidSettlesExactly() {
	zzvp.Option("overflow-as-obligation")
	zzvp.Stub(vpV1Conv)
	zzvp.Stub(vpV1Value)
	zzvp.Stub(vpV1VClose)
	zzvp.Stub(vpV1VCollect)
	zzvp.Stub(vpV1VLoss)
	zzvp.Stub("(github.com/comdex-official/comdex/x/auction/keeper.Keeper).CreateNewDutchBid")
	var k Keeper
	zzvp.Wire(&k)
	ctx := zzvp.Ctx()
	appID, mapID, auctionID := zzvp.AnyUint64(), zzvp.AnyUint64(), zzvp.AnyUint64()
	a, errA := k.GetDutchAuction(ctx, appID, mapID, auctionID)
	zzvp.Assume(errA == nil)
	zzvp.Assume(zzvp.And(a.AppId == appID, a.AuctionMappingId == mapID, a.AuctionId == auctionID, a.OutflowTokenCurrentAmount.Denom == a.OutflowTokenInitAmount.Denom,
		a.InflowTokenCurrentAmount.Denom == a.InflowTokenTargetAmount.Denom, a.OutflowTokenInitAmount.Denom != a.InflowTokenTargetAmount.Denom,
		a.InflowTokenCurrentAmount.Amount.LT(a.InflowTokenTargetAmount.Amount)))
	lim := sdk.NewInt(1 << 60)
	zzvp.Assume(zzvp.And(a.OutflowTokenCurrentAmount.Amount.LTE(lim), a.InflowTokenTargetAmount.Amount.LTE(lim)))
	lv, _ := k.liquidation.GetLockedVault(ctx, appID, a.LockedVaultId)
	bidder := zzvp.AnyAddr()
	owner, errO := sdk.AccAddressFromBech32(lv.Owner)
	zzvp.Assume(zzvp.Or(errO != nil, !owner.Equals(bidder)))
	custody := authtypes.NewModuleAddress(auctiontypes.ModuleName)
	zzvp.Assume(!bidder.Equals(custody))
	bid := sdk.Coin{Denom: zzvp.AnyString(), Amount: zzvp.AnySdkInt()}
	zzvp.Assume(!bid.Amount.IsNegative() && bid.Amount.LTE(lim))
	collDenom, debtDenom := a.OutflowTokenInitAmount.Denom, a.InflowTokenTargetAmount.Denom
	zzvp.Mark()
	err := k.PlaceDutchAuctionBid(ctx, appID, mapID, auctionID, bidder, bid)
	if err != nil {
		return
	}
	zzvp.Reach("bid-accepted")
	n := zzvp.SpyCount(vpV1Conv)
	zzvp.Assert(n == 1 || n == 2, "one-conversion-or-two-when-clipped")
	Z := zzvp.ZI
	held, raised, target := Z(a.OutflowTokenCurrentAmount.Amount), Z(a.InflowTokenCurrentAmount.Amount), Z(a.InflowTokenTargetAmount.Amount)
	sold := Z(bid.Amount)
	paid := zzvp.SpyResZ(vpV1Conv, 0, 1)
	if n == 2 {
		zzvp.Reach("bid-clipped-to-the-target")
		sold = zzvp.SpyResZ(vpV1Conv, 1, 1)
		paid = target.Sub(raised)
	}
	zero := zzvp.ZN(0)
	zzvp.Assert(bid.Denom == collDenom, "bid-in-the-collateral-denomination")
	zzvp.Assert(zzvp.And(paid.GT(zero), paid.LTE(target.Sub(raised))), "bidders-never-pay-beyond-the-target-debt")
	zzvp.Assert(Z(zzvp.BalanceDelta(bidder, debtDenom)).Equal(paid.Neg()), "bidder-pays-exactly-the-counted-debt-coins")
	zzvp.Assert(Z(zzvp.BalanceDelta(bidder, collDenom)).Equal(sold), "bidder-receives-exactly-the-collateral-sold")
	zzvp.Assert(sold.LTE(held), "never-more-collateral-than-the-auction-holds")
	reached := raised.Add(paid).GTE(target)
	soldOut := zzvp.And(!reached, sold.Equal(held))
	closes := zzvp.SpyCount(vpV1VClose)
	draws := zzvp.SpyCount(vpV1VCollect)
	over := zzvp.Or(reached, soldOut)
	zzvp.Assert(zzvp.And(zzvp.Implies(over, closes == 1), zzvp.Implies(!over, closes == 0)), "auction-closed-exactly-when-it-is-over")
	zzvp.Assert(zzvp.And(zzvp.Implies(soldOut, draws == 1), zzvp.Implies(!soldOut, draws == 0)), "collector-covers-a-shortfall-only-when-the-collateral-is-sold-out")
	if draws == 1 {
		zzvp.Reach("sold-out-with-debt-left")
		short := target.Sub(raised).Sub(paid)
		zzvp.Assert(zzvp.SpyArgZ(vpV1VCollect, 0, 4).Equal(short), "collector-asked-for-exactly-the-shortfall-after-this-bid")
		zzvp.Assert(zzvp.SpyCount(vpV1VLoss) == 1 && zzvp.SpyArgZ(vpV1VLoss, 0, 4).Equal(short), "protocol-loss-booked-is-the-shortfall")
	}
	// custody: +paid debt coins; collateral: -sold, and the unsold rest to the owner when the target is reached
	zzvp.Assert(Z(zzvp.BalanceDelta(custody, debtDenom)).Equal(paid), "custody-takes-exactly-the-payment")
	rest := held.Sub(sold)
	zzvp.Assert(Z(zzvp.BalanceDelta(custody, collDenom)).Equal(zzvp.IteZ(reached, held.Neg(), sold.Neg())), "custody-releases-the-sold-collateral-and-the-rest-when-the-target-is-reached")
	if errO == nil {
		zzvp.Assert(Z(zzvp.BalanceDelta(owner, collDenom)).Equal(zzvp.IteZ(reached, rest, zero)), "unsold-collateral-to-the-owner-when-the-target-is-reached")
	}
}
