//vp:target x/locker/keeper/zz_vp_shared.go
//vp:props C13 C12 C14
//vp:load ./app
//go:build verif

package keeper

import (
	sdk "github.com/cosmos/cosmos-sdk/types"

	assettypes "github.com/comdex-official/comdex/x/asset/types"
	collectorkeeper "github.com/comdex-official/comdex/x/collector/keeper"
	collectortypes "github.com/comdex-official/comdex/x/collector/types"
	"github.com/comdex-official/comdex/x/locker/types"
	"github.com/comdex-official/comdex/zzvp"
)

const vpLockerStore = "locker"

const (
	vpLCreate = iota
	vpLDeposit
	vpLWithdraw
	vpLClose
	vpLRewardCalc
)

type vpLW struct {
	k        Keeper
	ck       collectorkeeper.Keeper
	ctx      sdk.Context
	from     string
	appID    uint64
	assetID  uint64
	lockerID uint64
	amount   sdk.Int
	asset    assettypes.Asset
	hasL     bool
	l        types.Locker
	lt       types.LockerLookupTableData
	hasLT    bool
	nf       collectortypes.AppAssetIdToFeeCollectedData
	hasNF    bool
	newID    uint64
	breaker  bool
	esmOn    bool
}

// vpLockerWorld: arbitrary pre-state; assumed beyond per-record validity: key/record coherence, a locker's lookup table
// exists, and the next locker id is unused (all re-established by the C13 obligations).
func vpLockerWorld() *vpLW {
	zzvp.Option("overflow-as-obligation")
	zzvp.Stub("(github.com/comdex-official/comdex/x/rewards/keeper.Keeper).CalculationOfRewards")
	w := &vpLW{}
	zzvp.Wire(&w.k)
	zzvp.Wire(&w.ck)
	w.ctx = zzvp.Ctx()
	k, ctx := w.k, w.ctx
	w.from = zzvp.AnyString()
	w.appID, w.assetID, w.lockerID = zzvp.AnyUint64(), zzvp.AnyUint64(), zzvp.AnyUint64()
	w.amount = zzvp.AnySdkInt()
	var okA, okP bool
	w.asset, okA = k.asset.GetAsset(ctx, w.assetID)
	app, okP := k.asset.GetApp(ctx, w.appID)
	zzvp.Assume(zzvp.And(okA, okP, w.asset.Id == w.assetID, app.Id == w.appID))
	w.l, w.hasL = k.GetLocker(ctx, w.lockerID)
	zzvp.Assume(zzvp.Implies(w.hasL, w.l.LockerId == w.lockerID))
	w.lt, w.hasLT = k.GetLockerLookupTable(ctx, w.appID, w.assetID)
	zzvp.Assume(zzvp.Implies(w.hasLT, zzvp.And(w.lt.AppId == w.appID, w.lt.AssetId == w.assetID)))
	zzvp.Assume(zzvp.Implies(zzvp.And(w.hasL, w.l.AppId == w.appID, w.l.AssetDepositId == w.assetID), w.hasLT))
	w.nf, w.hasNF = w.ck.GetNetFeeCollectedData(ctx, w.appID, w.assetID)
	zzvp.Assume(zzvp.Implies(w.hasNF, zzvp.And(w.nf.AppId == w.appID, w.nf.AssetId == w.assetID)))
	pm, okPM := k.GetLockerProductAssetMapping(ctx, w.appID, w.assetID)
	zzvp.Assume(zzvp.Implies(okPM, zzvp.And(pm.AppId == w.appID, pm.AssetId == w.assetID)))
	um, okUM := k.GetUserLockerAssetMapping(ctx, w.from, w.appID, w.assetID)
	zzvp.Assume(zzvp.Implies(okUM, zzvp.And(um.AppId == w.appID, um.AssetId == w.assetID, um.Owner == w.from)))
	w.newID = k.GetIDForLocker(ctx) + 1
	_, taken := k.GetLocker(ctx, w.newID)
	zzvp.Assume(!taken)
	ks, _ := k.esm.GetKillSwitchData(ctx, w.appID)
	w.breaker = ks.BreakerEnable
	es, okS := k.esm.GetESMStatus(ctx, w.appID)
	w.esmOn = zzvp.And(okS, es.Status)
	return w
}

func (w *vpLW) vpLockerCall(h int) error {
	srv := NewMsgServer(w.k)
	c := sdk.WrapSDKContext(w.ctx)
	var err error
	switch h {
	case vpLCreate:
		m := &types.MsgCreateLockerRequest{Depositor: w.from, Amount: w.amount, AssetId: w.assetID, AppId: w.appID}
		zzvp.Assume(m.ValidateBasic() == nil)
		_, err = srv.MsgCreateLocker(c, m)
	case vpLDeposit:
		m := &types.MsgDepositAssetRequest{Depositor: w.from, LockerId: w.lockerID, Amount: w.amount, AssetId: w.assetID, AppId: w.appID}
		zzvp.Assume(m.ValidateBasic() == nil)
		_, err = srv.MsgDepositAsset(c, m)
	case vpLWithdraw:
		m := &types.MsgWithdrawAssetRequest{Depositor: w.from, LockerId: w.lockerID, Amount: w.amount, AssetId: w.assetID, AppId: w.appID}
		zzvp.Assume(m.ValidateBasic() == nil)
		_, err = srv.MsgWithdrawAsset(c, m)
	case vpLClose:
		m := &types.MsgCloseLockerRequest{Depositor: w.from, LockerId: w.lockerID, AssetId: w.assetID, AppId: w.appID}
		zzvp.Assume(m.ValidateBasic() == nil)
		_, err = srv.MsgCloseLocker(c, m)
	case vpLRewardCalc:
		m := &types.MsgLockerRewardCalcRequest{From: w.from, AppId: w.appID, LockerId: w.lockerID}
		zzvp.Assume(m.ValidateBasic() == nil)
		_, err = srv.MsgLockerRewardCalc(c, m)
	}
	return err
}
