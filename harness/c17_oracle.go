//vp:target x/market/keeper/zz_vp_c17.go
//go:build verif

package keeper

import (
	sdk "github.com/cosmos/cosmos-sdk/types"

	"github.com/comdex-official/comdex/x/market/types"
	"github.com/comdex-official/comdex/zzvp"
)

func vpMaxWindow() int {
	if zzvp.Thorough() {
		return 8 // 12 ran out of memory (61 GB, killed) in this sandbox: 8 is the registered thorough bound
	}
	return 6
}

// vpMean: t is the integer mean of pv (exact, no 64-bit wrap): t*n <= sum < (t+1)*n
func vpMean(pv []uint64, t uint64) bool {
	sum := zzvp.ZN(0)
	for _, p := range pv {
		sum = sum.Add(zzvp.ZU(p))
	}
	n := zzvp.ZN(int64(len(pv)))
	return zzvp.ZU(t).Mul(n).LTE(sum) && sum.LT(zzvp.ZU(t).Add(zzvp.ZN(1)).Mul(n))
}

// vpTwaInv is the invariant I(N) of the price ring (DESIGN.md, C17)
func vpTwaInv(t types.TimeWeightedAverage, N int) bool {
	L := len(t.PriceValue)
	if L > N {
		return false
	}
	if !(t.DiscardedHeightDiff == -1 || t.DiscardedHeightDiff > 0) {
		return false
	}
	for _, p := range t.PriceValue {
		if p == 0 {
			return false
		}
	}
	if t.IsPriceActive {
		return L == N && t.CurrentIndex < uint64(N) && t.DiscardedHeightDiff == -1 && vpMean(t.PriceValue, t.Twa)
	}
	return (L < N && t.CurrentIndex == uint64(L)) || (L == N && t.CurrentIndex < uint64(N))
}

// One step of the price pipeline from an arbitrary state satisfying I(N): no panic, I(N) again, activation only on a
// full window, zero sample deactivates, published value is the exact mean of the ring, ring replaces its oldest entry.
func VP_C17_UpdatePriceListStep() {
	var k Keeper
	zzvp.Wire(&k)
	ctx := zzvp.EmptyCtx()
	N := 1 + zzvp.Choose(vpMaxWindow())
	id := zzvp.AnyUint64()
	exists := zzvp.AnyBool()
	var pre types.TimeWeightedAverage
	if exists {
		L := zzvp.Choose(N + 1)
		pre.AssetID = id
		pre.ScriptID = zzvp.AnyUint64()
		pre.Twa = zzvp.AnyUint64()
		pre.CurrentIndex = zzvp.AnyUint64()
		pre.IsPriceActive = zzvp.AnyBool()
		pre.DiscardedHeightDiff = zzvp.AnyInt64()
		pre.PriceValue = make([]uint64, L)
		for i := range pre.PriceValue {
			pre.PriceValue[i] = zzvp.AnyUint64()
		}
		zzvp.Assume(vpTwaInv(pre, N))
		k.SetTwa(ctx, pre)
	}
	rate := zzvp.AnyUint64()
	gap := zzvp.AnyInt64()
	panicked := zzvp.Try(func() { k.UpdatePriceList(ctx, id, 7, rate, uint64(N), gap) })
	zzvp.Assert(!panicked, "price-pipeline-never-panics")
	if panicked {
		return
	}
	zzvp.Reach("step-done")
	post, found := k.GetTwa(ctx, id)
	if !found {
		zzvp.Assert(!exists && rate == 0, "record-missing-only-if-never-fed")
		return
	}
	zzvp.Assert(vpTwaInv(post, N), "ring-invariant-preserved")
	if post.IsPriceActive {
		zzvp.Reach("active-after-step")
		zzvp.Assert(len(post.PriceValue) == N, "active-only-on-full-window")
		zzvp.Assert(vpMean(post.PriceValue, post.Twa), "published-value-is-exact-mean-of-window")
		zzvp.Assert(rate > 0, "zero-sample-never-leaves-price-active")
	}
	if exists && pre.IsPriceActive && rate > 0 {
		zzvp.Reach("active-ring-step")
		ok := len(post.PriceValue) == N && post.CurrentIndex == (pre.CurrentIndex+1)%uint64(N)
		for i := 0; ok && i < N; i++ {
			if uint64(i) == pre.CurrentIndex {
				ok = post.PriceValue[i] == rate
			} else {
				ok = post.PriceValue[i] == pre.PriceValue[i]
			}
		}
		zzvp.Assert(ok, "newest-sample-replaces-oldest")
	}
	if rate == 0 {
		zzvp.Assert(!post.IsPriceActive, "zero-sample-deactivates")
	}
}

// Consumers get an error for an inactive or missing price, and never read outside the window.
func VP_C17_ConsumersFailWhenInactive() {
	var k Keeper
	zzvp.Wire(&k)
	ctx := zzvp.EmptyCtx()
	N := 1 + zzvp.Choose(vpMaxWindow())
	id := zzvp.AnyUint64()
	exists := zzvp.AnyBool()
	var pre types.TimeWeightedAverage
	if exists {
		L := zzvp.Choose(N + 1)
		pre.AssetID = id
		pre.Twa = zzvp.AnyUint64()
		pre.CurrentIndex = zzvp.AnyUint64()
		pre.IsPriceActive = zzvp.AnyBool()
		pre.DiscardedHeightDiff = zzvp.AnyInt64()
		pre.PriceValue = make([]uint64, L)
		for i := range pre.PriceValue {
			pre.PriceValue[i] = zzvp.AnyUint64()
		}
		zzvp.Assume(vpTwaInv(pre, N))
		k.SetTwa(ctx, pre)
	}
	var err error
	panicked := zzvp.Try(func() { _, err = k.GetLatestPrice(ctx, id) })
	zzvp.Assert(!panicked, "latest-price-never-panics")
	if panicked {
		return
	}
	zzvp.Reach("latest-price-returned")
	if !exists || !pre.IsPriceActive {
		zzvp.Assert(err != nil, "inactive-price-is-an-error")
	} else {
		zzvp.Assert(err == nil, "active-price-is-served")
	}
	var err2 error
	amt := zzvp.AnySdkInt()
	zzvp.Assume(!amt.IsNegative() && amt.LTE(sdk.NewIntFromUint64(1<<62)))
	panicked2 := zzvp.Try(func() { _, err2 = k.CalcAssetPrice(ctx, id, amt) })
	if panicked2 {
		return
	}
	if !exists || !pre.IsPriceActive {
		zzvp.Assert(err2 != nil, "inactive-price-value-is-an-error")
	}
}
