//vp:target x/liquidity/keeper/zz_vp_c04.go
//vp:props C04 C06
//vp:load ./app
//go:build verif

package keeper

import (
	sdkmath "cosmossdk.io/math"
	sdk "github.com/cosmos/cosmos-sdk/types"

	"github.com/comdex-official/comdex/x/liquidity/types"
	"github.com/comdex-official/comdex/zzvp"
)

// C04, one message from an arbitrary pre-state (lazily havocked store and bank): the custody account moves by exactly
// what the new / changed record says, so "custody >= recorded" (escrow) and "custody == recorded" (farmed pool coins)
// are kept by the step.

func vpUser(bech string, others ...sdk.AccAddress) sdk.AccAddress {
	a, err := sdk.AccAddressFromBech32(bech)
	zzvp.Assume(err == nil)
	for _, o := range others {
		zzvp.Assume(!a.Equals(o))
	}
	return a
}

// MsgDeposit: the coins named in the stored request are exactly the coins that entered the global escrow; the pool
// coin supply does not change when a request is only queued.
func VP_C04_DepositRequestIsEscrowed() {
	zzvp.Option("overflow-as-obligation")
	// the pool's reserve balances are only read to refuse too large pools: any value
	zzvp.Stub("(github.com/comdex-official/comdex/x/liquidity/keeper.Keeper).getPoolBalances")
	var k Keeper
	zzvp.Wire(&k)
	ctx := zzvp.Ctx()
	dx, dy := zzvp.AnyString(), zzvp.AnyString()
	zzvp.Assume(dx != dy)
	ax, ay := zzvp.AnySdkInt(), zzvp.AnySdkInt()
	zzvp.Assume(ax.IsPositive() && ay.IsPositive() && ax.LTE(sdkmath.NewIntWithDecimal(1, 40)) && ay.LTE(sdkmath.NewIntWithDecimal(1, 40)))
	msg := types.MsgDeposit{Depositor: zzvp.AnyString(), PoolId: zzvp.AnyUint64(), AppId: zzvp.AnyUint64(), DepositCoins: sdk.Coins{sdk.Coin{Denom: dx, Amount: ax}, sdk.Coin{Denom: dy, Amount: ay}}}
	user := vpUser(msg.Depositor, types.GlobalEscrowAddress)
	pool, _ := k.GetPool(ctx, msg.AppId, msg.PoolId)
	zzvp.Assume(pool.Id == msg.PoolId && pool.AppId == msg.AppId)
	zzvp.Assume(pool.LastDepositRequestId < 1<<63)
	_ = user
	zzvp.Mark()
	req, err := k.Deposit(ctx, &msg)
	if err != nil {
		return
	}
	zzvp.Reach("deposit-queued")
	stored, found := k.GetDepositRequest(ctx, msg.AppId, msg.PoolId, req.Id)
	zzvp.Assert(found, "request-stored")
	zzvp.Assert(req.Id == pool.LastDepositRequestId+1, "request-gets-a-fresh-id")
	zzvp.Assert(stored.Status == types.RequestStatusNotExecuted, "request-pending")
	zzvp.Assert(stored.DepositCoins.AmountOf(dx).Equal(ax) && stored.DepositCoins.AmountOf(dy).Equal(ay) && len(stored.DepositCoins) == 2, "request-records-the-deposited-coins")
	zzvp.Assert(zzvp.BalanceDelta(types.GlobalEscrowAddress, dx).Equal(ax) && zzvp.BalanceDelta(types.GlobalEscrowAddress, dy).Equal(ay), "escrow-receives-exactly-the-recorded-coins")
	zzvp.Assert(zzvp.SupplyDelta(pool.PoolCoinDenom).IsZero(), "pool-coin-supply-unchanged-by-a-queued-request")
}

// MsgWithdraw: the pool coin named in the stored request entered the global escrow.
func VP_C04_WithdrawRequestIsEscrowed() {
	zzvp.Option("overflow-as-obligation")
	var k Keeper
	zzvp.Wire(&k)
	ctx := zzvp.Ctx()
	amt := zzvp.AnySdkInt()
	zzvp.Assume(amt.IsPositive() && amt.LTE(sdkmath.NewIntWithDecimal(1, 40)))
	msg := types.MsgWithdraw{Withdrawer: zzvp.AnyString(), PoolId: zzvp.AnyUint64(), AppId: zzvp.AnyUint64(), PoolCoin: sdk.Coin{Denom: zzvp.AnyString(), Amount: amt}}
	vpUser(msg.Withdrawer, types.GlobalEscrowAddress)
	pool, _ := k.GetPool(ctx, msg.AppId, msg.PoolId)
	zzvp.Assume(pool.Id == msg.PoolId && pool.AppId == msg.AppId)
	zzvp.Assume(pool.LastWithdrawRequestId < 1<<63)
	zzvp.Mark()
	req, err := k.Withdraw(ctx, &msg)
	if err != nil {
		return
	}
	zzvp.Reach("withdrawal-queued")
	stored, found := k.GetWithdrawRequest(ctx, msg.AppId, msg.PoolId, req.Id)
	zzvp.Assert(found, "request-stored")
	zzvp.Assert(req.Id == pool.LastWithdrawRequestId+1, "request-gets-a-fresh-id")
	zzvp.Assert(stored.Status == types.RequestStatusNotExecuted, "request-pending")
	zzvp.Assert(msg.PoolCoin.Denom == pool.PoolCoinDenom, "only-this-pools-coin-is-accepted")
	zzvp.Assert(stored.PoolCoin.Denom == msg.PoolCoin.Denom && stored.PoolCoin.Amount.Equal(amt), "request-records-the-pool-coin")
	zzvp.Assert(zzvp.BalanceDelta(types.GlobalEscrowAddress, msg.PoolCoin.Denom).Equal(amt), "escrow-receives-exactly-the-recorded-pool-coin")
	zzvp.Assert(zzvp.SupplyDelta(pool.PoolCoinDenom).IsZero(), "pool-coin-supply-unchanged-by-a-queued-request")
}

func vpQueuedSum(q types.QueuedFarmer) sdkmath.Int {
	s := sdkmath.ZeroInt()
	for _, c := range q.QueudCoins {
		s = s.Add(c.FarmedPoolCoin.Amount)
	}
	return s
}

// the farmer's records before the message: a queued record with 0..N entries and possibly an active record
func vpFarmerRecords(k Keeper, ctx sdk.Context, appID, poolID uint64, farmer sdk.AccAddress, bech, denom string) (recorded sdkmath.Int) {
	recorded = sdkmath.ZeroInt()
	maxN := 2
	if zzvp.Thorough() {
		maxN = 3
	}
	n := zzvp.Choose(maxN + 2) // 0: no records at all; j+1: queued record with j entries
	if n == 0 {
		_, qf := k.GetQueuedFarmer(ctx, appID, poolID, farmer)
		_, af := k.GetActiveFarmer(ctx, appID, poolID, farmer)
		zzvp.Assume(!qf && !af)
		return
	}
	q := types.NewQueuedfarmer(appID, poolID, farmer)
	for i := 0; i < n-1; i++ {
		a := zzvp.AnySdkInt()
		zzvp.Assume(a.IsPositive() && a.LTE(sdkmath.NewIntWithDecimal(1, 40)))
		q.QueudCoins = append(q.QueudCoins, &types.QueuedCoin{FarmedPoolCoin: sdk.Coin{Denom: denom, Amount: a}, CreatedAt: ctx.BlockTime()})
		recorded = recorded.Add(a)
	}
	k.SetQueuedFarmer(ctx, q)
	if zzvp.AnyBool() {
		a := zzvp.AnySdkInt()
		zzvp.Assume(a.IsPositive() && a.LTE(sdkmath.NewIntWithDecimal(1, 40)))
		k.SetActiveFarmer(ctx, types.ActiveFarmer{AppId: appID, PoolId: poolID, Farmer: bech, FarmedPoolCoin: sdk.Coin{Denom: denom, Amount: a}})
		recorded = recorded.Add(a)
	} else {
		_, af := k.GetActiveFarmer(ctx, appID, poolID, farmer)
		zzvp.Assume(!af)
	}
	return
}

func vpFarmedNow(k Keeper, ctx sdk.Context, appID, poolID uint64, farmer sdk.AccAddress) sdkmath.Int {
	s := sdkmath.ZeroInt()
	if q, ok := k.GetQueuedFarmer(ctx, appID, poolID, farmer); ok {
		s = s.Add(vpQueuedSum(q))
	}
	if a, ok := k.GetActiveFarmer(ctx, appID, poolID, farmer); ok {
		s = s.Add(a.FarmedPoolCoin.Amount)
	}
	return s
}

// Farm / Unfarm: the module account's pool-coin balance moves by exactly the change of the farmer's recorded farmed
// amount (queued + active), only this pool's coin is accepted, and never more is released than was recorded.
func vpFarmStep(unfarm bool) {
	var k Keeper
	zzvp.Wire(&k)
	ctx := zzvp.Ctx()
	appID, poolID := zzvp.AnyUint64(), zzvp.AnyUint64()
	bech := zzvp.AnyString()
	farmer := vpUser(bech, zzvp.ModuleAddr(types.ModuleName))
	pool, _ := k.GetPool(ctx, appID, poolID)
	zzvp.Assume(pool.Id == poolID && pool.AppId == appID)
	before := vpFarmerRecords(k, ctx, appID, poolID, farmer, bech, pool.PoolCoinDenom)
	amt := zzvp.AnySdkInt()
	zzvp.Assume(amt.LTE(sdkmath.NewIntWithDecimal(1, 40)))
	coin := sdk.Coin{Denom: zzvp.AnyString(), Amount: amt}
	zzvp.Mark()
	var err error
	if unfarm {
		err = k.Unfarm(ctx, &types.MsgUnfarm{AppId: appID, PoolId: poolID, Farmer: bech, UnfarmingPoolCoin: coin})
	} else {
		err = k.Farm(ctx, &types.MsgFarm{AppId: appID, PoolId: poolID, Farmer: bech, FarmingPoolCoin: coin})
	}
	if err != nil {
		return
	}
	zzvp.Reach("farm-step-succeeded")
	zzvp.Assert(coin.Denom == pool.PoolCoinDenom && amt.IsPositive(), "only-a-positive-amount-of-this-pools-coin")
	after := vpFarmedNow(k, ctx, appID, poolID, farmer)
	d := zzvp.BalanceDelta(zzvp.ModuleAddr(types.ModuleName), pool.PoolCoinDenom)
	if unfarm {
		zzvp.Assert(amt.LTE(before), "never-releases-more-than-recorded")
		zzvp.Assert(d.Equal(amt.Neg()), "module-account-pays-exactly-the-unfarmed-amount")
	} else {
		zzvp.Assert(d.Equal(amt), "module-account-receives-exactly-the-farmed-amount")
	}
	zzvp.Assert(after.Sub(before).Equal(d), "module-balance-moves-with-the-recorded-farmed-amount")
}

func VP_C04_Farm()   { vpFarmStep(false) }
func VP_C04_Unfarm() { vpFarmStep(true) }

// End-of-batch step that moves matured queued pool coins to the farmer's active record: the farmer's recorded total for
// THIS pool (queued + active) is unchanged by it, and no other pool's record is touched - so "module account holds
// exactly the recorded farmed coins per pool" is kept. Closed world: one app, one pool whose id may differ from its pair
// id, one farmer with 0..2 queued entries of any age, possibly an active record in this pool and possibly one in the
// pool that has this pool's PAIR id as its id. Gauge lookup and minimum epoch duration are contract stubs.
func VP_C04_MaturingKeepsTheFarmersTotalPerPool() {
	zzvp.Stub("(github.com/comdex-official/comdex/x/liquidity/keeper.Keeper).GetMinimumEpochDurationFromPoolID")
	zzvp.Stub("(github.com/comdex-official/comdex/x/rewards/keeper.Keeper).GetAllGaugesByGaugeTypeID")
	var k Keeper
	zzvp.Wire(&k)
	ctx := zzvp.ClosedCtx()
	const app = 1
	var pool types.Pool
	zzvp.AnyOf(&pool)
	pool.AppId = app
	zzvp.Assume(pool.Id >= 1 && pool.PairId >= 1)
	k.SetPool(ctx, pool)
	bech := zzvp.AnyString()
	farmer := vpUser(bech)
	q := types.NewQueuedfarmer(app, pool.Id, farmer)
	n := zzvp.Choose(3)
	before := sdkmath.ZeroInt()
	for i := 0; i < n; i++ {
		a := zzvp.AnySdkInt()
		zzvp.Assume(a.IsPositive() && a.LTE(sdkmath.NewIntWithDecimal(1, 40)))
		q.QueudCoins = append(q.QueudCoins, &types.QueuedCoin{FarmedPoolCoin: sdk.Coin{Denom: pool.PoolCoinDenom, Amount: a}, CreatedAt: zzvp.AnyTime()})
		before = before.Add(a)
	}
	k.SetQueuedFarmer(ctx, q)
	if zzvp.AnyBool() {
		a := zzvp.AnySdkInt()
		zzvp.Assume(a.IsPositive() && a.LTE(sdkmath.NewIntWithDecimal(1, 40)))
		k.SetActiveFarmer(ctx, types.ActiveFarmer{AppId: app, PoolId: pool.Id, Farmer: bech, FarmedPoolCoin: sdk.Coin{Denom: pool.PoolCoinDenom, Amount: a}})
		before = before.Add(a)
	}
	// a record of the same farmer in the pool whose id is this pool's pair id (another pool of the app)
	other := zzvp.AnySdkInt()
	hasOther := zzvp.AnyBool()
	if hasOther {
		zzvp.Assume(pool.PairId != pool.Id && other.IsPositive() && other.LTE(sdkmath.NewIntWithDecimal(1, 40)))
		k.SetActiveFarmer(ctx, types.ActiveFarmer{AppId: app, PoolId: pool.PairId, Farmer: bech, FarmedPoolCoin: sdk.Coin{Denom: "otherpoolcoin", Amount: other}})
	}
	k.ProcessQueuedFarmers(ctx, app)
	zzvp.Reach("maturing-step-done")
	zzvp.Assert(vpFarmedNow(k, ctx, app, pool.Id, farmer).Equal(before), "farmers-recorded-total-for-this-pool-unchanged")
	if hasOther {
		o, found := k.GetActiveFarmer(ctx, app, pool.PairId, farmer)
		zzvp.Assert(zzvp.And(found, o.FarmedPoolCoin.Amount.Equal(other), o.FarmedPoolCoin.Denom == "otherpoolcoin"), "other-pools-record-untouched")
	}
}

// The same step with TWO farmers queued in one pool (each with 0..1 queued entries of any age): what is pending or
// matures for one farmer never shows up in the other farmer's records - each farmer's recorded total (queued + active)
// is unchanged by the step.
func VP_C04_MaturingKeepsEachOfTwoFarmersTotals() {
	zzvp.Stub("(github.com/comdex-official/comdex/x/liquidity/keeper.Keeper).GetMinimumEpochDurationFromPoolID")
	zzvp.Stub("(github.com/comdex-official/comdex/x/rewards/keeper.Keeper).GetAllGaugesByGaugeTypeID")
	var k Keeper
	zzvp.Wire(&k)
	ctx := zzvp.ClosedCtx()
	const app = 1
	var pool types.Pool
	zzvp.AnyOf(&pool)
	pool.AppId = app
	zzvp.Assume(pool.Id >= 1 && pool.PairId >= 1)
	k.SetPool(ctx, pool)
	bech1, bech2 := zzvp.AnyString(), zzvp.AnyString()
	f1 := vpUser(bech1)
	f2 := vpUser(bech2, f1)
	var before [2]sdkmath.Int
	for i, f := range []sdk.AccAddress{f1, f2} {
		q := types.NewQueuedfarmer(app, pool.Id, f)
		before[i] = sdkmath.ZeroInt()
		if zzvp.AnyBool() {
			a := zzvp.AnySdkInt()
			zzvp.Assume(a.IsPositive() && a.LTE(sdkmath.NewIntWithDecimal(1, 40)))
			q.QueudCoins = append(q.QueudCoins, &types.QueuedCoin{FarmedPoolCoin: sdk.Coin{Denom: pool.PoolCoinDenom, Amount: a}, CreatedAt: zzvp.AnyTime()})
			before[i] = a
		}
		k.SetQueuedFarmer(ctx, q)
	}
	k.ProcessQueuedFarmers(ctx, app)
	zzvp.Reach("maturing-step-with-two-farmers-done")
	zzvp.Assert(vpFarmedNow(k, ctx, app, pool.Id, f1).Equal(before[0]), "first-farmers-recorded-total-unchanged")
	zzvp.Assert(vpFarmedNow(k, ctx, app, pool.Id, f2).Equal(before[1]), "second-farmers-recorded-total-unchanged")
}
