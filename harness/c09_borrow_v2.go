//vp:target x/liquidationsV2/keeper/zz_vp_c09_borrow.go
//vp:load ./app
//go:build verif

package keeper

import (
	assetkeeper "github.com/comdex-official/comdex/x/asset/keeper"
	lendkeeper "github.com/comdex-official/comdex/x/lend/keeper"
	"github.com/comdex-official/comdex/zzvp"
)

const (
	vpLendK         = "(github.com/comdex-official/comdex/x/lend/keeper.Keeper)."
	vpUpdateLocked  = "(github.com/comdex-official/comdex/x/liquidationsV2/keeper.Keeper).UpdateLockedBorrows"
	vpCalcRatio     = vpLendK + "CalculateCollateralizationRatio"
	vpSeizeRatioArg = 5 // UpdateLockedBorrows(k, ctx, borrow, owner, appID, currentCollateralizationRatio, ...)
)

// C09 safety (borrows, second generation; the same decision serves the per-block sweep and MsgLiquidate): a borrow is
// handed to seizure (UpdateLockedBorrows) only when the debt-to-collateral ratio the lend module reports for it is
// above the liquidation threshold that applies to it: the collateral asset's threshold (e-mode threshold for e-mode
// pairs), multiplied by the threshold of the transit asset the borrow is bridged through (first or second transit
// asset of the pool) for cross-pool borrows. Arbitrary pre-state (lazily havocked store), arbitrary borrow id and
// caller. The ratio itself (oracle prices) and the interest arithmetic are contract stubs: ANY ratio / interest; what
// is decided is that for every ratio the seizure decision compares it with the right threshold. Seizure is observed
// as the call of UpdateLockedBorrows (stub), whose ratio argument is the one the decision used.
// Bound: stable-rate borrows (StableBorrowRate != 0) are outside this obligation (their rate re-balancing returns a
// fresh borrow record).
func VP_C09_V2BorrowSeizedOnlyAboveItsThreshold() {
	for _, f := range []string{"GetReserveRate", "GetBorrowAPRByAssetID", "CalculateBorrowInterest", "CalculateStableInterest", "CalculateCollateralizationRatio"} {
		zzvp.Stub(vpLendK + f)
	}
	zzvp.Stub(vpUpdateLocked)
	var k Keeper
	zzvp.Wire(&k)
	var lk lendkeeper.Keeper
	zzvp.Wire(&lk)
	var ak assetkeeper.Keeper
	zzvp.Wire(&ak)
	ctx := zzvp.Ctx()
	id := zzvp.AnyUint64()
	// the pre-state the decision is about
	b, bfound := lk.GetBorrow(ctx, id)
	zzvp.Assume(zzvp.Implies(bfound, b.StableBorrowRate.IsZero()))
	// representation invariant of the borrow table (SetBorrow derives the key from the record): stored under its own id
	zzvp.Assume(zzvp.Implies(bfound, b.ID == id))
	pair, _ := lk.GetLendPair(ctx, b.PairID)
	lend, _ := lk.GetLend(ctx, b.LendingID)
	pool, _ := lk.GetPool(ctx, lend.PoolID)
	thr, _ := lk.GetAssetRatesParams(ctx, pair.AssetIn)
	var first, second uint64
	for _, d := range pool.AssetData {
		if d.AssetTransitType == 2 {
			first = d.AssetID
		}
		if d.AssetTransitType == 3 {
			second = d.AssetID
		}
	}
	thr1, _ := lk.GetAssetRatesParams(ctx, first)
	thr2, _ := lk.GetAssetRatesParams(ctx, second)
	firstAsset, _ := ak.GetAsset(ctx, first)

	err := k.LiquidateIndividualBorrow(ctx, id, zzvp.AnyString(), zzvp.AnyBool())
	zzvp.Reach("decision-made")
	seized := zzvp.SpyCount(vpUpdateLocked)
	zzvp.Assert(seized <= 1, "at-most-one-seizure-per-borrow")
	if seized == 0 {
		return
	}
	zzvp.Reach("seized")
	_ = err
	zzvp.Assert(bfound && !b.IsLiquidated, "only-an-open-borrow-is-seized")
	r := zzvp.SpyArgZ(vpUpdateLocked, 0, vpSeizeRatioArg) // ratio * 10^18
	base := thr.LiquidationThreshold
	if pair.IsEModeEnabled {
		base = thr.ELiquidationThreshold
	}
	e18 := zzvp.Pow10(18)
	switch {
	case b.BridgedAssetAmount.Amount.IsZero():
		zzvp.Reach("seized-same-pool")
		zzvp.Assert(r.GT(zzvp.ZD(base)), "same-pool-borrow-seized-only-above-the-collateral-threshold")
	case b.BridgedAssetAmount.Denom == firstAsset.Denom:
		zzvp.Reach("seized-first-transit")
		// r > base*thr1 (one unit of the last decimal place of tolerance for the rounding of the product)
		zzvp.Assert(r.Add(zzvp.ZN(1)).Mul(e18).GT(zzvp.ZD(base).Mul(zzvp.ZD(thr1.LiquidationThreshold))), "first-transit-borrow-seized-only-above-threshold-times-first-transit-threshold")
	default:
		zzvp.Reach("seized-second-transit")
		zzvp.Assert(r.Add(zzvp.ZN(1)).Mul(e18).GT(zzvp.ZD(base).Mul(zzvp.ZD(thr2.LiquidationThreshold))), "second-transit-borrow-seized-only-above-threshold-times-second-transit-threshold")
	}
}
