//vp:target x/liquidity/amm/zz_vp_c06.go
//go:build verif

package amm

import (
	sdkmath "cosmossdk.io/math"

	"github.com/comdex-official/comdex/zzvp"
)

func vpAmount(allowZero bool) sdkmath.Int {
	v := zzvp.AnySdkInt()
	if allowZero {
		zzvp.Assume(!v.IsNegative() && v.LTE(MaxCoinAmount))
	} else {
		zzvp.Assume(v.IsPositive() && v.LTE(MaxCoinAmount))
	}
	return v
}

func vpWithdrawSpec(rx, ry, ps, pc sdkmath.Int, fee sdkmath.LegacyDec, x, y sdkmath.Int) {
	Z, e18 := zzvp.ZI, zzvp.Pow10(18)
	if pc.Equal(ps) {
		zzvp.Reach("last-share")
		zzvp.Assert(x.Equal(rx) && y.Equal(ry), "last-share-gets-all")
		return
	}
	zzvp.Assert(!x.IsNegative() && !y.IsNegative(), "nonnegative")
	// x*ps*1e18 <= rx*pc*(1e18 - fee*1e18): at most the pro-rata share reduced by the fee
	oneMinusFee := e18.Sub(zzvp.ZD(fee))
	zzvp.Assert(Z(x).Mul(Z(ps)).Mul(e18).LTE(Z(rx).Mul(Z(pc)).Mul(oneMinusFee)), "x<=prorata*(1-fee)")
	zzvp.Assert(Z(y).Mul(Z(ps)).Mul(e18).LTE(Z(ry).Mul(Z(pc)).Mul(oneMinusFee)), "y<=prorata*(1-fee)")
	// reserves per outstanding share do not decrease: (rx-x)*ps >= rx*(ps-pc)
	zzvp.Assert(Z(rx).Sub(Z(x)).Mul(Z(ps)).GTE(Z(rx).Mul(Z(ps).Sub(Z(pc)))), "reserve-per-share-x-not-decreased")
	zzvp.Assert(Z(ry).Sub(Z(y)).Mul(Z(ps)).GTE(Z(ry).Mul(Z(ps).Sub(Z(pc)))), "reserve-per-share-y-not-decreased")
}

// C06: a withdrawal never returns more than the pro-rata share reduced by the fee; the last share gets everything.
func VP_C06_Withdraw() {
	zzvp.Option("no-region-merge") // pure non-linear arithmetic: separate paths keep the queries small
	rx, ry, ps, pc := vpAmount(true), vpAmount(true), vpAmount(false), vpAmount(false)
	fee := zzvp.AnyDec()
	zzvp.Assume(pc.LTE(ps))
	zzvp.Assume(!fee.IsNegative() && fee.LTE(sdkmath.LegacyOneDec()))
	x, y := Withdraw(rx, ry, ps, pc, fee)
	zzvp.Reach("withdraw-returned")
	vpWithdrawSpec(rx, ry, ps, pc, fee, x, y)
}

func vpDepositSpec(rx, ry, ps, x, y, ax, ay, pc sdkmath.Int) {
	Z, e17 := zzvp.ZI, zzvp.Pow10(17)
	zzvp.Assert(!pc.IsNegative() && !ax.IsNegative() && !ay.IsNegative(), "nonnegative")
	zzvp.Assert(ax.LTE(x), "ax<=x")
	zzvp.Assert(ay.LTE(y), "ay<=y")
	if pc.IsPositive() {
		zzvp.Reach("deposit-mints")
	}
	// shares minted at a rate no better than reserves per share, tolerance 1e-17 of the reserve (property statement):
	// rx*pc <= ax*ps + rx*ps/1e17
	zzvp.Assert(Z(rx).Mul(Z(pc)).Mul(e17).LTE(Z(ax).Mul(Z(ps)).Mul(e17).Add(Z(rx).Mul(Z(ps)))), "share-rate-x")
	zzvp.Assert(Z(ry).Mul(Z(pc)).Mul(e17).LTE(Z(ay).Mul(Z(ps)).Mul(e17).Add(Z(ry).Mul(Z(ps)))), "share-rate-y")
}

// C06: a deposit never takes more than offered and mints at a rate no better than reserves per share. All five operands symbolic.
func VP_C06_Deposit() {
	zzvp.Option("no-region-merge") // pure non-linear arithmetic: separate paths keep the queries small
	rx, ry, ps, x, y := vpAmount(false), vpAmount(false), vpAmount(false), vpAmount(false), vpAmount(false)
	ax, ay, pc := Deposit(rx, ry, ps, x, y)
	zzvp.Reach("deposit-returned")
	vpDepositSpec(rx, ry, ps, x, y, ax, ay, pc)
}

// Same obligations with the pool state (configuration) taken from a boundary-heavy grid and the user's amounts symbolic:
// every product and quotient is then linear in the symbolic inputs.
func VP_C06_DepositGrid() {
	zzvp.Option("no-region-merge") // pure non-linear arithmetic: separate paths keep the queries small
	type st struct{ rx, ry, ps string }
	grid := []st{
		{"1", "1", "1"}, {"1000000", "1000000", "1000000"}, {"1", "1000000000000000000", "1000000000"},
		{"999999999999", "3", "7"}, {"10000000000000000000000000000000000000000", "1", "10000000000000000000000000000000000000000"},
		{"123456789", "987654321", "1000000000000"}, {"3", "10000000000000000000000000000000000000000", "2"},
		{"500000000000000000", "500000000000000001", "999999999999999999"},
	}
	g := grid[zzvp.Choose(len(grid))]
	rx, _ := sdkmath.NewIntFromString(g.rx)
	ry, _ := sdkmath.NewIntFromString(g.ry)
	ps, _ := sdkmath.NewIntFromString(g.ps)
	x, y := vpAmount(false), vpAmount(false)
	ax, ay, pc := Deposit(rx, ry, ps, x, y)
	zzvp.Reach("deposit-returned")
	vpDepositSpec(rx, ry, ps, x, y, ax, ay, pc)
}

// C06, ranged pools, lopsided reserves: when one reserve is so small against the other that their ratio rounds to zero
// at 18 decimals (the "single asset pool" branches of DeriveTranslation), the derived translation still puts the pool
// price (rx + transX) / (ry + transY) inside the configured range. Semi-concrete: price ranges from a grid whose square
// roots are exact ([0.25, 4], [0.81, 1.21], [0.0001, 10000]); the small reserve in [1, 10^6], the large one symbolic up
// to the module's amount bound. The normal branch (square roots of symbolic ratios) is outside the claim.
func VP_C06_RangedLopsidedPoolPriceStaysInRange() {
	grid := [][2]string{{"0.25", "4"}, {"0.81", "1.21"}, {"0.0001", "10000"}}
	g := grid[zzvp.Choose(len(grid))]
	minPrice, maxPrice := sdkmath.LegacyMustNewDecFromStr(g[0]), sdkmath.LegacyMustNewDecFromStr(g[1])
	small, big := vpAmount(false), vpAmount(false)
	zzvp.Assume(small.LTE(sdkmath.NewInt(1000000)))
	var rx, ry sdkmath.Int
	if zzvp.Choose(2) == 0 {
		rx, ry = small, big // y-heavy
	} else {
		rx, ry = big, small // x-heavy
	}
	// the ratio of the small to the large reserve rounds to zero at 18 decimals
	zzvp.Assume(small.ToLegacyDec().Quo(big.ToLegacyDec()).IsZero())
	pool := NewRangedPool(rx, ry, sdkmath.NewInt(1000000), minPrice, maxPrice)
	zzvp.Reach("lopsided-pool-derived")
	// min * (1 - 1e-12) * yComp <= xComp <= max * (1 + 1e-12) * yComp   (raw 18-decimal integers, exact)
	x, y, e12 := zzvp.ZD(pool.xComp), zzvp.ZD(pool.yComp), zzvp.Pow10(12)
	zzvp.Assert(y.IsPositive(), "translated-y-reserve-positive")
	zzvp.Assert(x.Mul(zzvp.Pow10(18)).Mul(e12).GTE(zzvp.ZD(minPrice).Mul(e12.Sub(zzvp.ZN(1))).Mul(y)), "price-not-below-the-configured-minimum")
	zzvp.Assert(x.Mul(zzvp.Pow10(18)).Mul(e12).LTE(zzvp.ZD(maxPrice).Mul(e12.Add(zzvp.ZN(1))).Mul(y)), "price-not-above-the-configured-maximum")
}
