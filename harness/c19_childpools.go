//vp:target x/liquidity/keeper/zz_vp_c19.go
//vp:load ./app
//go:build verif

package keeper

import (
	sdkmath "cosmossdk.io/math"
	sdk "github.com/cosmos/cosmos-sdk/types"

	"github.com/comdex-official/comdex/x/liquidity/types"
	"github.com/comdex-official/comdex/zzvp"
)

const vpLiqK = "(github.com/comdex-official/comdex/x/liquidity/keeper.Keeper)."

// C19 (farmed value that a master-pool gauge shares its epoch allocation by): a farmer's aggregated child-pool value is
// the SUM over the child pools he farms in of twice the oracle value of his share of the priced asset - no child pool
// is left out or counted twice. Pool arithmetic and oracle valuation are spy stubs (any values); the aggregation
// over pools is the real code. Two child pools, one farmer with an active position in either, both or none.
func VP_C19_ChildPoolValueIsSummedOverPools() {
	for _, f := range []string{"GetPoolTokenDesrializerKit", "GetAssetWhoseOraclePriceExists", "CalculateXYFromPoolCoin", "CalcAssetPrice"} {
		zzvp.Stub(vpLiqK + f)
	}
	var k Keeper
	zzvp.Wire(&k)
	ctx := zzvp.ClosedCtx()
	appID := zzvp.AnyUint64()
	farmer := zzvp.AnyAddr()
	in1, in2 := zzvp.AnyBool(), zzvp.AnyBool()
	if in1 {
		k.SetActiveFarmer(ctx, types.ActiveFarmer{AppId: appID, PoolId: 1, Farmer: farmer.String(), FarmedPoolCoin: sdk.Coin{Denom: "pool1", Amount: zzvp.AnySdkInt()}})
	}
	if in2 {
		k.SetActiveFarmer(ctx, types.ActiveFarmer{AppId: appID, PoolId: 2, Farmer: farmer.String(), FarmedPoolCoin: sdk.Coin{Denom: "pool2", Amount: zzvp.AnySdkInt()}})
	}
	res := k.GetAggregatedChildPoolContributions(ctx, appID, []uint64{1, 2}, []sdk.AccAddress{farmer})
	zzvp.Reach("aggregated")
	n := zzvp.SpyCount(vpLiqK + "CalcAssetPrice")
	want := zzvp.ZN(0)
	for i := 0; i < n; i++ {
		want = want.Add(zzvp.SpyResZ(vpLiqK+"CalcAssetPrice", i, 0).Mul(zzvp.ZN(2)))
	}
	got, found := res[farmer.String()]
	if n == 0 {
		zzvp.Assert(!found, "no-valued-position-no-entry")
		return
	}
	zzvp.Reach("valued")
	if n == 2 {
		zzvp.Reach("valued-in-both-pools")
	}
	zzvp.Assert(found, "a-valued-position-gives-an-entry")
	if found {
		zzvp.Assert(zzvp.ZD(got).Equal(want), "value-is-the-sum-over-all-child-pools")
	}
	_ = sdkmath.ZeroInt
}
