//vp:target x/lend/keeper/zz_vp_c14_lend.go
//vp:load ./app
//go:build verif

package keeper

import (
	sdk "github.com/cosmos/cosmos-sdk/types"

	esmkeeper "github.com/comdex-official/comdex/x/esm/keeper"
	"github.com/comdex-official/comdex/x/lend/types"
	"github.com/comdex-official/comdex/zzvp"
)

// C14 (lending): while the circuit breaker of the position's app is on, no message opens, enlarges or draws from a
// lend / borrow position of that app. Contrapositive form (as for C12): the breaker of the app concerned is ASSUMED on
// in an otherwise arbitrary pre-state, and the handler must refuse; the exploration then ends at the guard.
func vpBreakerOn(ctx sdk.Context, appID uint64) {
	var ek esmkeeper.Keeper
	zzvp.Wire(&ek)
	ks, found := ek.GetKillSwitchData(ctx, appID)
	zzvp.Assume(zzvp.And(found, ks.BreakerEnable))
}

func vpRefused(err error) {
	zzvp.Reach("handler-returned")
	zzvp.Assert(err != nil, "refused-while-the-circuit-breaker-is-on")
}

func VP_C14_LendMsgLend() {
	k, ctx := vpLendWorld()
	msg := types.MsgLend{Lender: zzvp.AnyString(), AssetId: zzvp.AnyUint64(), Amount: vpAnyCoin(), PoolId: zzvp.AnyUint64(), AppId: zzvp.AnyUint64()}
	zzvp.Assume(msg.ValidateBasic() == nil)
	vpBreakerOn(ctx, msg.AppId)
	_, err := NewMsgServerImpl(k).Lend(sdk.WrapSDKContext(ctx), &msg)
	vpRefused(err)
}

func VP_C14_LendMsgDeposit() {
	k, ctx := vpLendWorld()
	msg := types.MsgDeposit{Lender: zzvp.AnyString(), LendId: zzvp.AnyUint64(), Amount: vpAnyCoin()}
	zzvp.Assume(msg.ValidateBasic() == nil)
	l, _ := k.GetLend(ctx, msg.LendId)
	vpBreakerOn(ctx, l.AppID)
	_, err := NewMsgServerImpl(k).Deposit(sdk.WrapSDKContext(ctx), &msg)
	vpRefused(err)
}

func VP_C14_LendMsgBorrow() {
	k, ctx := vpLendWorld()
	msg := types.MsgBorrow{Borrower: zzvp.AnyString(), LendId: zzvp.AnyUint64(), PairId: zzvp.AnyUint64(), IsStableBorrow: zzvp.AnyBool(), AmountIn: vpAnyCoin(), AmountOut: vpAnyCoin()}
	zzvp.Assume(msg.ValidateBasic() == nil)
	l, _ := k.GetLend(ctx, msg.LendId)
	vpBreakerOn(ctx, l.AppID)
	_, err := NewMsgServerImpl(k).Borrow(sdk.WrapSDKContext(ctx), &msg)
	vpRefused(err)
}

func VP_C14_LendMsgBorrowAlternate() {
	k, ctx := vpLendWorld()
	msg := types.MsgBorrowAlternate{Lender: zzvp.AnyString(), AssetId: zzvp.AnyUint64(), PoolId: zzvp.AnyUint64(), AmountIn: vpAnyCoin(), PairId: zzvp.AnyUint64(),
		IsStableBorrow: zzvp.AnyBool(), AmountOut: vpAnyCoin(), AppId: zzvp.AnyUint64()}
	zzvp.Assume(msg.ValidateBasic() == nil)
	vpBreakerOn(ctx, msg.AppId)
	_, err := NewMsgServerImpl(k).BorrowAlternate(sdk.WrapSDKContext(ctx), &msg)
	vpRefused(err)
}

func vpBorrowApp(k Keeper, ctx sdk.Context, borrowID uint64) uint64 {
	b, _ := k.GetBorrow(ctx, borrowID)
	l, _ := k.GetLend(ctx, b.LendingID)
	return l.AppID
}

func VP_C14_LendMsgDepositBorrow() {
	k, ctx := vpLendWorld()
	msg := types.MsgDepositBorrow{Borrower: zzvp.AnyString(), BorrowId: zzvp.AnyUint64(), Amount: vpAnyCoin()}
	zzvp.Assume(msg.ValidateBasic() == nil)
	vpBreakerOn(ctx, vpBorrowApp(k, ctx, msg.BorrowId))
	_, err := NewMsgServerImpl(k).DepositBorrow(sdk.WrapSDKContext(ctx), &msg)
	vpRefused(err)
}

func VP_C14_LendMsgDraw() {
	k, ctx := vpLendWorld()
	msg := types.MsgDraw{Borrower: zzvp.AnyString(), BorrowId: zzvp.AnyUint64(), Amount: vpAnyCoin()}
	zzvp.Assume(msg.ValidateBasic() == nil)
	vpBreakerOn(ctx, vpBorrowApp(k, ctx, msg.BorrowId))
	_, err := NewMsgServerImpl(k).Draw(sdk.WrapSDKContext(ctx), &msg)
	vpRefused(err)
}
