//vp:target x/lend/keeper/zz_vp_c12_lend.go
//vp:props C12 C08 C14
//vp:load ./app
//go:build verif

package keeper

import (
	sdk "github.com/cosmos/cosmos-sdk/types"

	"github.com/comdex-official/comdex/x/lend/types"
	"github.com/comdex-official/comdex/zzvp"
)

// C12 (lend and borrow positions): a message that names a lend or borrow position and succeeds was signed by the
// position's owner (a borrow position is owned by the owner of the lend position it is attached to). The pre-state is
// arbitrary (lazily havocked store and bank), the message arbitrary but ValidateBasic-valid. The interest / statistics
// helpers are contract stubs (any result): they do not take part in the authorisation decision, and stubbing them keeps
// the handlers' path count small. What is decided: on EVERY successful path the owner comparison was made and passed.
const vpLK = "(github.com/comdex-official/comdex/x/lend/keeper.Keeper)."

func vpLendWorld() (Keeper, sdk.Context) {
	return vpLendWorldWith("UpdateBorrowStats", "UpdateLendStats", "UpdateReserveAmtFromRepayments")
}

// the interest / rate / oracle helpers are always contract stubs; extra names the bookkeeping helpers to stub as well
func vpLendWorldWith(extra ...string) (Keeper, sdk.Context) {
	for _, f := range append([]string{"IterateBorrow", "IterateLends", "VerifyCollateralizationRatio", "CalculateCollateralizationRatio",
		"CheckSupplyCap", "CheckIsolatedModeForBorrow", "ReBalanceStableRates", "GetAverageBorrowRate", "CheckBorrowersLiquidity"}, extra...) {
		zzvp.Stub(vpLK + f)
	}
	var k Keeper
	zzvp.Wire(&k)
	return k, zzvp.Ctx()
}

func vpAnyCoin() sdk.Coin { return sdk.Coin{Denom: zzvp.AnyString(), Amount: zzvp.AnySdkInt()} }

func vpBorrowOwner(k Keeper, ctx sdk.Context, borrowID uint64) (owner string, exists bool) {
	b, bf := k.GetBorrow(ctx, borrowID)
	l, lf := k.GetLend(ctx, b.LendingID)
	return l.Owner, zzvp.And(bf, lf)
}

// The law is checked in its contrapositive form, which keeps the exploration short: ASSUME the signer is not the owner
// of the named position (or the position does not exist) and assert that the handler refuses. Every path then ends at
// the ownership test; the code behind it is only explored if that test is missing or wrong.
func vpNotOwner(exists bool, owner, signer string) {
	zzvp.Assume(!zzvp.And(exists, owner == signer))
}

func vpOwnerLaw(err error) {
	zzvp.Reach("handler-returned")
	zzvp.Assert(err != nil, "a-signer-who-is-not-the-owner-is-refused")
}

func VP_C12_LendMsgDraw() {
	k, ctx := vpLendWorld()
	msg := types.MsgDraw{Borrower: zzvp.AnyString(), BorrowId: zzvp.AnyUint64(), Amount: vpAnyCoin()}
	zzvp.Assume(msg.ValidateBasic() == nil)
	owner, exists := vpBorrowOwner(k, ctx, msg.BorrowId)
	vpNotOwner(exists, owner, msg.Borrower)
	_, err := NewMsgServerImpl(k).Draw(sdk.WrapSDKContext(ctx), &msg)
	vpOwnerLaw(err)
}

func vpLendOwner(k Keeper, ctx sdk.Context, lendID uint64) (string, bool) {
	l, lf := k.GetLend(ctx, lendID)
	return l.Owner, lf
}

func VP_C12_LendMsgWithdraw() {
	k, ctx := vpLendWorld()
	msg := types.MsgWithdraw{Lender: zzvp.AnyString(), LendId: zzvp.AnyUint64(), Amount: vpAnyCoin()}
	zzvp.Assume(msg.ValidateBasic() == nil)
	owner, exists := vpLendOwner(k, ctx, msg.LendId)
	vpNotOwner(exists, owner, msg.Lender)
	_, err := NewMsgServerImpl(k).Withdraw(sdk.WrapSDKContext(ctx), &msg)
	vpOwnerLaw(err)
}

func VP_C12_LendMsgDeposit() {
	k, ctx := vpLendWorld()
	msg := types.MsgDeposit{Lender: zzvp.AnyString(), LendId: zzvp.AnyUint64(), Amount: vpAnyCoin()}
	zzvp.Assume(msg.ValidateBasic() == nil)
	owner, exists := vpLendOwner(k, ctx, msg.LendId)
	vpNotOwner(exists, owner, msg.Lender)
	_, err := NewMsgServerImpl(k).Deposit(sdk.WrapSDKContext(ctx), &msg)
	vpOwnerLaw(err)
}

func VP_C12_LendMsgCloseLend() {
	k, ctx := vpLendWorld()
	msg := types.MsgCloseLend{Lender: zzvp.AnyString(), LendId: zzvp.AnyUint64()}
	zzvp.Assume(msg.ValidateBasic() == nil)
	owner, exists := vpLendOwner(k, ctx, msg.LendId)
	vpNotOwner(exists, owner, msg.Lender)
	_, err := NewMsgServerImpl(k).CloseLend(sdk.WrapSDKContext(ctx), &msg)
	vpOwnerLaw(err)
}

// borrowing pledges collateral of the named lend position
func VP_C12_LendMsgBorrow() {
	k, ctx := vpLendWorld()
	msg := types.MsgBorrow{Borrower: zzvp.AnyString(), LendId: zzvp.AnyUint64(), PairId: zzvp.AnyUint64(), IsStableBorrow: zzvp.AnyBool(), AmountIn: vpAnyCoin(), AmountOut: vpAnyCoin()}
	zzvp.Assume(msg.ValidateBasic() == nil)
	owner, exists := vpLendOwner(k, ctx, msg.LendId)
	vpNotOwner(exists, owner, msg.Borrower)
	_, err := NewMsgServerImpl(k).Borrow(sdk.WrapSDKContext(ctx), &msg)
	vpOwnerLaw(err)
}

func VP_C12_LendMsgRepay() {
	k, ctx := vpLendWorld()
	msg := types.MsgRepay{Borrower: zzvp.AnyString(), BorrowId: zzvp.AnyUint64(), Amount: vpAnyCoin()}
	zzvp.Assume(msg.ValidateBasic() == nil)
	owner, exists := vpBorrowOwner(k, ctx, msg.BorrowId)
	vpNotOwner(exists, owner, msg.Borrower)
	_, err := NewMsgServerImpl(k).Repay(sdk.WrapSDKContext(ctx), &msg)
	vpOwnerLaw(err)
}

func VP_C12_LendMsgDepositBorrow() {
	k, ctx := vpLendWorld()
	msg := types.MsgDepositBorrow{Borrower: zzvp.AnyString(), BorrowId: zzvp.AnyUint64(), Amount: vpAnyCoin()}
	zzvp.Assume(msg.ValidateBasic() == nil)
	owner, exists := vpBorrowOwner(k, ctx, msg.BorrowId)
	vpNotOwner(exists, owner, msg.Borrower)
	_, err := NewMsgServerImpl(k).DepositBorrow(sdk.WrapSDKContext(ctx), &msg)
	vpOwnerLaw(err)
}

func VP_C12_LendMsgCloseBorrow() {
	k, ctx := vpLendWorld()
	msg := types.MsgCloseBorrow{Borrower: zzvp.AnyString(), BorrowId: zzvp.AnyUint64()}
	zzvp.Assume(msg.ValidateBasic() == nil)
	owner, exists := vpBorrowOwner(k, ctx, msg.BorrowId)
	vpNotOwner(exists, owner, msg.Borrower)
	_, err := NewMsgServerImpl(k).CloseBorrow(sdk.WrapSDKContext(ctx), &msg)
	vpOwnerLaw(err)
}

func VP_C12_LendMsgRepayWithdraw() {
	k, ctx := vpLendWorld()
	msg := types.MsgRepayWithdraw{Borrower: zzvp.AnyString(), BorrowId: zzvp.AnyUint64()}
	zzvp.Assume(msg.ValidateBasic() == nil)
	owner, exists := vpBorrowOwner(k, ctx, msg.BorrowId)
	vpNotOwner(exists, owner, msg.Borrower)
	_, err := NewMsgServerImpl(k).RepayWithdraw(sdk.WrapSDKContext(ctx), &msg)
	vpOwnerLaw(err)
}
