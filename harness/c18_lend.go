//vp:target x/lend/keeper/zz_vp_c18.go
//go:build verif

package keeper

import (
	"time"

	sdk "github.com/cosmos/cosmos-sdk/types"

	"github.com/comdex-official/comdex/x/lend/types"
	"github.com/comdex-official/comdex/zzvp"
)

// The accrual formulas multiply principal x rate x elapsed time. Each instantiation keeps ONE of the three symbolic
// (the one the obligation is monotone in) and takes the other two from a boundary-heavy grid, which keeps every
// product linear for the solver (configuration-grid mode, DESIGN.md 3.3 B).
var vpRates = []string{"0", "0.000000000000000001", "0.123456789012345678", "10"}
var vpPrincipals = []int64{0, 1, 123456789012, 1<<62 - 1}
var vpElapsed = []int64{0, 1, 86400, 31557601}
var vpIndexes = []string{"1", "1.000000000000000001", "999.999999999999999999"}

const vpT0 = int64(1700000000)

type vpAccrualCase struct {
	t1, t2 time.Time
	a1, a2 sdk.Int
	r1, r2 sdk.Dec
	idx    sdk.Dec
}

// vpCase picks which argument is symbolic (0 time, 1 principal, 2 rate). For that argument one side of the comparison is
// a grid point and the other side is ANY value above it (dir 0) or below it (dir 1): the accrual at every grid point
// bounds the accrual at all larger arguments from below and at all smaller arguments from above ("sandwich"
// monotonicity relative to the grid; two fully symbolic arguments did not solve within the caps, see DESIGN.md C18).
func vpCase() (c vpAccrualCase, which int) {
	which = zzvp.Choose(3)
	dir := zzvp.Choose(2)
	c.idx = sdk.MustNewDecFromStr(vpIndexes[zzvp.Choose(len(vpIndexes))])
	d := vpElapsed[zzvp.Choose(len(vpElapsed))]
	c.t1 = time.Unix(vpT0+d, 0)
	c.t2 = c.t1
	c.a1 = sdk.NewInt(vpPrincipals[zzvp.Choose(len(vpPrincipals))])
	c.a2 = c.a1
	c.r1 = sdk.MustNewDecFromStr(vpRates[zzvp.Choose(len(vpRates))])
	c.r2 = c.r1
	switch which {
	case 0:
		t := zzvp.AnyTime()
		zzvp.Assume(t.Unix() >= vpT0 && t.Unix() <= vpT0+4000000000)
		if dir == 0 {
			zzvp.Assume(t.Unix() >= c.t1.Unix())
			c.t2 = t
		} else {
			zzvp.Assume(t.Unix() <= c.t1.Unix())
			c.t1 = t
		}
	case 1:
		a := zzvp.AnySdkInt()
		zzvp.Assume(!a.IsNegative() && a.LTE(sdk.NewInt(1<<62)))
		if dir == 0 {
			zzvp.Assume(a.GTE(c.a1))
			c.a2 = a
		} else {
			zzvp.Assume(a.LTE(c.a1))
			c.a1 = a
		}
	case 2:
		r := zzvp.AnyDec()
		zzvp.Assume(!r.IsNegative() && r.LTE(sdk.NewDec(10)))
		if dir == 0 {
			zzvp.Assume(r.GTE(c.r1))
			c.r2 = r
		} else {
			zzvp.Assume(r.LTE(c.r1))
			c.r1 = r
		}
	}
	return
}

// C18: lending rewards are non-negative, zero over zero time, and monotone in elapsed time, principal and rate.
func VP_C18_LendRewardMonotone() {
	zzvp.Option("overflow-as-obligation")
	var k Keeper
	zzvp.Wire(&k)
	ctx := zzvp.Ctx()
	c, _ := vpCase()
	var lend types.LendAsset
	lend.GlobalIndex = c.idx
	lend.LastInteractionTime = time.Unix(vpT0, 0)
	x, _, err1 := k.CalculateLendReward(ctx.WithBlockTime(c.t1), c.a1.String(), c.r1, lend)
	y, _, err2 := k.CalculateLendReward(ctx.WithBlockTime(c.t2), c.a2.String(), c.r2, lend)
	if err1 != nil || err2 != nil {
		return
	}
	zzvp.Reach("both-accruals-computed")
	zzvp.Assert(!x.IsNegative() && !y.IsNegative(), "accrual-non-negative")
	zzvp.Assert(x.LTE(y), "accrual-monotone")
	z, _, err3 := k.CalculateLendReward(ctx.WithBlockTime(lend.LastInteractionTime), c.a2.String(), c.r2, lend)
	if err3 == nil {
		zzvp.Assert(z.IsZero(), "zero-over-zero-time")
	}
}

// C18: borrow interest (variable rate, index form, with its reserve share) and stable-rate interest.
func VP_C18_BorrowInterestMonotone() {
	zzvp.Option("overflow-as-obligation")
	var k Keeper
	zzvp.Wire(&k)
	ctx := zzvp.Ctx()
	c, which := vpCase()
	var b types.BorrowAsset
	b.GlobalIndex = c.idx
	b.ReserveGlobalIndex = c.idx
	b.LastInteractionTime = time.Unix(vpT0, 0)
	rr := sdk.MustNewDecFromStr("0.2")
	x, _, xr, _, err1 := k.CalculateBorrowInterest(ctx.WithBlockTime(c.t1), c.a1.String(), c.r1, rr, b)
	y, _, yr, _, err2 := k.CalculateBorrowInterest(ctx.WithBlockTime(c.t2), c.a2.String(), c.r2, rr, b)
	if err1 != nil || err2 != nil {
		return
	}
	zzvp.Reach("both-accruals-computed")
	zzvp.Assert(!x.IsNegative() && !y.IsNegative() && !xr.IsNegative() && !yr.IsNegative(), "accrual-non-negative")
	zzvp.Assert(x.LTE(y), "interest-monotone")
	zzvp.Assert(xr.LTE(yr), "reserve-share-monotone")
	z, _, zr, _, err3 := k.CalculateBorrowInterest(ctx.WithBlockTime(b.LastInteractionTime), c.a2.String(), c.r2, rr, b)
	if err3 == nil {
		zzvp.Assert(z.IsZero() && zr.IsZero(), "zero-over-zero-time")
	}
	// stable-rate interest: amount * rate * years (the rate is the position's own StableBorrowRate)
	b1, b2 := b, b
	b1.StableBorrowRate, b2.StableBorrowRate = c.r1, c.r2
	sx, e1 := k.CalculateStableInterest(ctx.WithBlockTime(c.t1), c.a1.String(), b1)
	sy, e2 := k.CalculateStableInterest(ctx.WithBlockTime(c.t2), c.a2.String(), b2)
	if e1 == nil && e2 == nil {
		zzvp.Reach("stable-accruals-computed")
		zzvp.Assert(!sx.IsNegative() && sx.LTE(sy), "stable-interest-monotone")
	}
	sz, e3 := k.CalculateStableInterest(ctx.WithBlockTime(b.LastInteractionTime), c.a2.String(), b2)
	if e3 == nil {
		zzvp.Assert(sz.IsZero(), "stable-zero-over-zero-time")
	}
	_ = which
}
