//vp:target x/rewards/keeper/zz_vp_c19g.go
//vp:load ./app
//go:build verif

package keeper

import (
	"time"

	sdk "github.com/cosmos/cosmos-sdk/types"

	"github.com/comdex-official/comdex/x/rewards/types"
	"github.com/comdex-official/comdex/zzvp"
)

const (
	vpBeginDistr  = "(github.com/comdex-official/comdex/x/rewards/keeper.Keeper).BeginRewardDistributions"
	vpFarmRewards = "(github.com/comdex-official/comdex/x/liquidity/keeper.Keeper).GetFarmingRewardsData"
)

// C19 (gauge bookkeeping, one epoch trigger of one external-reward gauge from any consistent gauge state):
// a distribution is asked for only while the gauge is active, started and has epochs left, and then for exactly this
// epoch's allocation (which the undistributed remainder covers); the trigger count moves by one and the cumulative
// amount by what the distribution reports; the trigger count never passes the total. The distribution itself is a
// contract stub here (any reported amount, or failure); that it never reports more than it was given is
// VP_C19_EpochPaysAtMostItsAllocation.
func VP_C19_GaugeEpochStep() {
	zzvp.Stub(vpBeginDistr)
	var k Keeper
	zzvp.Wire(&k)
	ctx := zzvp.ClosedCtx()
	maxE := 4
	if zzvp.Thorough() {
		maxE = 8
	}
	E := uint64(1 + zzvp.Choose(maxE))
	var g types.Gauge
	g.Id = 1
	g.From = "gaugeowner"
	g.GaugeTypeId = 1
	g.TriggerDuration = time.Hour
	g.TotalTriggers = E
	g.TriggeredCount = zzvp.AnyUint64()
	g.DepositAmount = sdk.Coin{Denom: "ureward", Amount: sdk.NewIntFromUint64(zzvp.AnyUint64())}
	g.DistributedAmount = sdk.Coin{Denom: "ureward", Amount: zzvp.AnySdkInt()}
	g.IsActive = zzvp.AnyBool()
	g.StartTime = zzvp.AnyTime()
	g.AppId = zzvp.AnyUint64()
	g.Kind = &types.Gauge_LiquidityMetaData{LiquidityMetaData: &types.LiquidtyGaugeMetaData{PoolId: zzvp.AnyUint64()}}
	// consistent gauge state: count within the total, deposit at least one unit per epoch (ValidateBasic), cumulative
	// amount within the deposit
	zzvp.Assume(g.TriggeredCount <= E && g.DepositAmount.Amount.GTE(sdk.NewIntFromUint64(E)))
	zzvp.Assume(!g.DistributedAmount.Amount.IsNegative() && g.DistributedAmount.Amount.LTE(g.DepositAmount.Amount))
	k.SetGauge(ctx, g)
	k.SetGaugeIdsByTriggerDuration(ctx, types.GaugeByTriggerDuration{TriggerDuration: time.Hour, GaugeIds: []uint64{1}})
	err := k.InitateGaugesForDuration(ctx, time.Hour)
	zzvp.Reach("trigger-returned")
	zzvp.Assert(err == nil, "trigger-reports-no-error")
	post, found := k.GetGaugeByID(ctx, 1)
	zzvp.Assert(found, "gauge-still-stored")
	calls := zzvp.SpyCount(vpBeginDistr)
	zzvp.Assert(calls <= 1, "at-most-one-distribution-per-trigger")
	zzvp.Assert(post.TriggeredCount <= E, "trigger-count-never-passes-the-total")
	zzvp.Assert(post.DepositAmount.Amount.Equal(g.DepositAmount.Amount), "deposit-of-an-external-gauge-is-never-changed")
	if calls == 0 {
		zzvp.Assert(post.TriggeredCount == g.TriggeredCount && post.DistributedAmount.Amount.Equal(g.DistributedAmount.Amount), "no-distribution-no-progress")
		return
	}
	zzvp.Reach("distribution-asked-for")
	started := !ctx.BlockTime().Before(g.StartTime)
	zzvp.Assert(zzvp.And(g.IsActive, started, g.TriggeredCount < E), "distribution-only-while-active-started-and-epochs-left")
	if g.TriggeredCount >= E {
		return
	}
	alloc := SplitTotalAmountPerEpoch(g.DepositAmount.Amount.Uint64(), E)[g.TriggeredCount]
	asked := zzvp.SpyArgZ(vpBeginDistr, 0, 3)
	zzvp.Assert(asked.Equal(zzvp.ZU(alloc)), "asks-for-exactly-this-epochs-allocation")
	zzvp.Assert(asked.LTE(zzvp.ZI(g.DepositAmount.Amount.Sub(g.DistributedAmount.Amount))), "allocation-covered-by-the-undistributed-remainder")
	if zzvp.SpyErrNil(vpBeginDistr, 0) {
		zzvp.Reach("epoch-paid")
		reported := zzvp.SpyResZ(vpBeginDistr, 0, 0)
		zzvp.Assert(post.TriggeredCount == g.TriggeredCount+1, "a-paid-epoch-counts-once")
		zzvp.Assert(zzvp.ZI(post.DistributedAmount.Amount).Equal(zzvp.ZI(g.DistributedAmount.Amount).Add(reported)), "cumulative-amount-grows-by-what-was-distributed")
	} else {
		zzvp.Assert(post.TriggeredCount == g.TriggeredCount && post.DistributedAmount.Amount.Equal(g.DistributedAmount.Amount), "a-failed-epoch-changes-nothing")
	}
}

// C19: one epoch's distribution never reports (and never pays) more than it was given, whatever the farming module
// computes as shares (contract stub: any list of receivers and amounts).
func VP_C19_EpochPaysAtMostItsAllocation() {
	zzvp.Stub(vpFarmRewards)
	zzvp.Bound("slice-len", 2)
	zzvp.Option("no-region-merge") // keeps the receiver list's length concrete on every path
	var k Keeper
	zzvp.Wire(&k)
	ctx := zzvp.Ctx()
	var g types.Gauge
	g.Id, g.GaugeTypeId, g.AppId = 1, 1, zzvp.AnyUint64()
	g.Kind = &types.Gauge_LiquidityMetaData{LiquidityMetaData: &types.LiquidtyGaugeMetaData{PoolId: zzvp.AnyUint64()}}
	coin := sdk.Coin{Denom: zzvp.AnyString(), Amount: zzvp.AnySdkInt()}
	zzvp.Assume(!coin.Amount.IsNegative())
	zzvp.Mark()
	res, err := k.BeginRewardDistributions(ctx, g, coin, zzvp.AnyUint64(), time.Hour)
	zzvp.Reach("distribution-returned")
	zzvp.Assert(zzvp.And(!res.Amount.IsNegative(), res.Amount.LTE(coin.Amount)), "reports-at-most-what-it-was-given")
	zzvp.Assert(res.Denom == coin.Denom, "reports-in-the-denomination-it-was-given")
	if err != nil {
		zzvp.Assert(res.Amount.IsZero(), "a-failed-distribution-reports-zero")
		zzvp.Assert(zzvp.BankWritesSinceMark() == 0, "a-failed-distribution-pays-nothing")
	}
}
