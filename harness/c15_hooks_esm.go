//vp:target x/esm/zz_vp_c15.go
//vp:load ./app
//go:build verif

package esm

import (
	abci "github.com/cometbft/cometbft/abci/types"

	assetkeeper "github.com/comdex-official/comdex/x/asset/keeper"
	assettypes "github.com/comdex-official/comdex/x/asset/types"
	"github.com/comdex-official/comdex/x/esm/keeper"
	"github.com/comdex-official/comdex/x/esm/types"
	"github.com/comdex-official/comdex/zzvp"
)

const vpEK = "(github.com/comdex-official/comdex/x/esm/keeper.Keeper)."

// C15 (emergency-shutdown hook): for 0..N apps, each with any shutdown status record (or none), every step of the
// shutdown procedure may succeed, report failure or PANIC (contract stubs with a panic outcome); esm.BeginBlocker
// returns normally in every case.
func VP_C15_EsmBeginBlockerContainsItsWork() {
	for _, f := range []string{"SnapshotOfPrices", "SetUpCollateralRedemptionForVault", "SetUpCollateralRedemptionForStableVault", "SetUpDebtRedemptionForCollector", "SetUpShareCalculation"} {
		zzvp.StubMayPanic(vpEK + f)
	}
	var k keeper.Keeper
	zzvp.Wire(&k)
	var ak assetkeeper.Keeper
	zzvp.Wire(&ak)
	ctx := zzvp.ClosedCtx()
	maxN := 1
	if zzvp.Thorough() {
		maxN = 2
	}
	n := zzvp.Choose(maxN + 1)
	for i := 0; i < n; i++ {
		ak.SetApp(ctx, assettypes.AppData{Id: uint64(i + 1), Name: "app", ShortName: "a"})
		if zzvp.AnyBool() {
			var st types.ESMStatus
			zzvp.AnyOf(&st)
			st.AppId = uint64(i + 1)
			k.SetESMStatus(ctx, st)
		}
	}
	panicked := zzvp.Try(func() { BeginBlocker(ctx, abci.RequestBeginBlock{}, k, &ak) })
	zzvp.Reach("hook-returned")
	zzvp.Assert(!panicked, "no-panic-escapes-the-esm-hook")
}
