//vp:target x/locker/keeper/zz_vp_c13.go
//vp:load ./app
//go:build verif

package keeper

import (
	sdk "github.com/cosmos/cosmos-sdk/types"

	collectortypes "github.com/comdex-official/comdex/x/collector/types"
	"github.com/comdex-official/comdex/x/locker/types"
	"github.com/comdex-official/comdex/zzvp"
)

// C13 (locker side), one inductive step per locker message: the (app, asset) deposited total and the locker custody
// account move exactly with the locker's net balance; a withdrawal pays the requested amount, a close pays the full
// balance; savings paid into a locker leave the collector's custody and its recorded net fees by the same amount and
// the recorded net fees never go negative.
func vpC13Locker(h int) {
	w := vpLockerWorld()
	k, ctx := w.k, w.ctx
	user, errA := sdk.AccAddressFromBech32(w.from)
	zzvp.Assume(errA == nil)
	if h == vpLRewardCalc {
		// the message names no asset: w.assetID stands for the locker's own asset
		zzvp.Assume(zzvp.Implies(w.hasL, w.l.AssetDepositId == w.assetID))
	}
	zzvp.Mark()
	if w.vpLockerCall(h) != nil {
		return
	}
	zzvp.Reach("handler-succeeded")
	id := w.lockerID
	pre := zzvp.IteZ(w.hasL, zzvp.ZI(w.l.NetBalance), zzvp.ZN(0))
	if h == vpLCreate {
		id = w.newID
		pre = zzvp.ZN(0)
	}
	post, found := k.GetLocker(ctx, id)
	dBal := zzvp.IteZ(found, zzvp.ZI(post.NetBalance), zzvp.ZN(0)).Sub(pre)
	// the locker belongs to the (app, asset) named by the message (so that this product's totals are the right ones)
	if h != vpLCreate && h != vpLRewardCalc {
		zzvp.Assert(zzvp.And(w.hasL, w.l.AppId == w.appID, w.l.AssetDepositId == w.assetID), "locker-belongs-to-named-app-and-asset")
	}
	lt, _ := k.GetLockerLookupTable(ctx, w.appID, w.assetID)
	preLT := zzvp.IteZ(w.hasLT, zzvp.ZI(w.lt.DepositedAmount), zzvp.ZN(0))
	if h != vpLRewardCalc {
		zzvp.Assert(zzvp.ZI(lt.DepositedAmount).Sub(preLT).Equal(dBal), "deposited-total-delta=net-balance-delta")
	}
	dCust := zzvp.ZI(zzvp.BalanceDelta(zzvp.ModuleAddr(types.ModuleName), w.asset.Denom))
	if h != vpLRewardCalc {
		zzvp.Assert(dCust.Equal(dBal), "custody-delta=net-balance-delta")
	}
	dUser := zzvp.ZI(zzvp.BalanceDelta(user, w.asset.Denom))
	dColl := zzvp.ZI(zzvp.BalanceDelta(zzvp.ModuleAddr(collectortypes.ModuleName), w.asset.Denom))
	zzvp.Assert(dUser.Add(dCust).Add(dColl).IsZero(), "coins-only-move-between-user-locker-and-collector")
	zzvp.Assert(!dColl.IsPositive(), "collector-only-pays-savings")
	switch h {
	case vpLCreate, vpLDeposit:
		zzvp.Assert(dUser.Equal(zzvp.ZI(w.amount).Neg()), "depositor-pays-exactly-the-amount")
	case vpLWithdraw:
		zzvp.Assert(dUser.Equal(zzvp.ZI(w.amount)), "withdrawal-pays-exactly-the-requested-amount")
	case vpLClose:
		zzvp.Assert(!found, "closed-locker-is-deleted")
		zzvp.Assert(dUser.Equal(pre.Sub(dColl)), "close-pays-the-full-net-balance-including-savings")
	}
	// collector books: recorded net fees fall exactly by the savings paid out and stay non-negative
	nf, _ := w.ck.GetNetFeeCollectedData(ctx, w.appID, w.assetID)
	preNF := zzvp.IteZ(w.hasNF, zzvp.ZI(w.nf.NetFeesCollected), zzvp.ZN(0))
	zzvp.Assert(zzvp.ZI(nf.NetFeesCollected).Sub(preNF).Equal(dColl), "net-fees-delta=collector-custody-delta")
	zzvp.Assert(!zzvp.ZI(nf.NetFeesCollected).IsNegative(), "net-fees-never-negative")
	// no other locker and no other product total is written
	zzvp.Assert(zzvp.OnlyWritten(vpLockerStore, types.LockerKeyPrefix, types.LockerKey(id)), "only-the-named-locker-written")
	zzvp.Assert(zzvp.OnlyWritten(vpLockerStore, types.LockerLookupTableKeyPrefix, types.LockerLookupTableKey(w.appID, w.assetID)), "only-this-products-total-written")
	if h == vpLCreate {
		zzvp.Assert(zzvp.And(found, post.LockerId == w.newID, post.AppId == w.appID, post.AssetDepositId == w.assetID, post.Depositor == w.from), "inv:new-locker-coherent")
		zzvp.Assert(k.GetIDForLocker(ctx) == w.newID, "inv:id-counter-advanced")
	}
}

func VP_C13_MsgCreateLocker()     { vpC13Locker(vpLCreate) }
func VP_C13_MsgDepositAsset()     { vpC13Locker(vpLDeposit) }
func VP_C13_MsgWithdrawAsset()    { vpC13Locker(vpLWithdraw) }
func VP_C13_MsgCloseLocker()      { vpC13Locker(vpLClose) }
func VP_C13_MsgLockerRewardCalc() { vpC13Locker(vpLRewardCalc) }
