//vp:target x/auctionsV2/keeper/zz_vp_c10.go
//vp:props C10 C13
//vp:load ./app
//go:build verif

package keeper

import (
	sdk "github.com/cosmos/cosmos-sdk/types"

	"github.com/comdex-official/comdex/x/auctionsV2/types"
	collectorkeeper "github.com/comdex-official/comdex/x/collector/keeper"
	collectortypes "github.com/comdex-official/comdex/x/collector/types"
	liqkeeper "github.com/comdex-official/comdex/x/liquidationsV2/keeper"
	liqtypes "github.com/comdex-official/comdex/x/liquidationsV2/types"
	"github.com/comdex-official/comdex/zzvp"
)

type vpDutchW struct {
	k        Keeper
	ck       collectorkeeper.Keeper
	ctx      sdk.Context
	a        types.Auction
	lv       liqtypes.LockedVault
	bidder   string
	addr     sdk.AccAddress
	owner    sdk.AccAddress
	bid      sdk.Coin
	vaultT   bool
	externT  bool
}

// vpDutchWorld: an arbitrary running second-generation Dutch auction with its seized position. Assumed beyond record
// validity (invariants of a running auction, established by the activator and preserved by bids):
// the position's target debt is at least the auction's remaining debt (the difference has been collected), the fee
// to be collected is part of the target debt, and the auction and the position agree on denominations and assets.
// The conversion helpers are contract stubs ("any amount"): this obligation is about who is paid what out of custody
// and under which record it is booked, the posted-price bound is a separate obligation.
func vpDutchWorld() *vpDutchW {
	zzvp.Option("overflow-as-obligation")
	zzvp.Bound("slice-len", 1) // havocked list fields (bid id lists, vault id lists) have at most one element here
	// the conversion is a function of its arguments and non-decreasing in the amount (argument 4); its second result is the
	// converted amount. Monotonicity of the real function is obligation VP_C10_ConversionMonotone.
	zzvp.StubMonotone("(github.com/comdex-official/comdex/x/vault/keeper.Keeper).GetAmountOfOtherToken", 4, 1)
	zzvp.Stub("(github.com/comdex-official/comdex/x/auctionsV2/keeper.Keeper).CalcDollarValueForToken")
	w := &vpDutchW{}
	zzvp.Wire(&w.k)
	zzvp.Wire(&w.ck)
	var lk liqkeeper.Keeper
	zzvp.Wire(&lk)
	// closed world: exactly the records seeded here exist (each with arbitrary contents); unseeded records are absent.
	// Measured: with a fully arbitrary store this 280-line function did not finish in 20 minutes.
	w.ctx = zzvp.ClosedCtx()
	zzvp.AnyOf(&w.a)
	a := &w.a
	a.AuctionType = true
	zzvp.Assume(zzvp.And(a.AuctionId != 0, a.CollateralToken.Denom != a.DebtToken.Denom, a.CollateralAssetId != a.DebtAssetId))
	_ = w.k.SetAuction(w.ctx, *a)
	zzvp.AnyOf(&w.lv)
	w.lv.LockedVaultId, w.lv.AppId = a.LockedVaultId, a.AppId
	w.vaultT = zzvp.Choose(2) == 0 // initiator kind: vault or external (lend-initiated auctions settle through x/lend)
	w.externT = !w.vaultT
	if w.vaultT {
		w.lv.InitiatorType = "vault"
	} else {
		w.lv.InitiatorType = "external"
	}
	lv := w.lv
	zzvp.Assume(zzvp.And(lv.TargetDebt.Denom == a.DebtToken.Denom, lv.TargetDebt.Amount.GTE(a.DebtToken.Amount), lv.FeeToBeCollected.LTE(lv.TargetDebt.Amount)))
	lk.SetLockedVault(w.ctx, lv)
	var wl liqtypes.LiquidationWhiteListing
	zzvp.AnyOf(&wl)
	wl.AppId = a.AppId
	zzvp.Assume(zzvp.And(!wl.KeeeperIncentive.IsNegative(), wl.KeeeperIncentive.LTE(sdk.OneDec())))
	lk.SetLiquidationWhiteListing(w.ctx, wl)
	var params types.AuctionParams
	zzvp.AnyOf(&params)
	w.k.SetAuctionParams(w.ctx, params)
	// optional pre-existing net-fee records of the two assets
	if zzvp.AnyBool() {
		_ = w.ck.SetNetFeeCollectedData(w.ctx, a.AppId, a.DebtAssetId, zzvp.AnySdkInt())
	}
	if zzvp.AnyBool() {
		_ = w.ck.SetNetFeeCollectedData(w.ctx, a.AppId, a.CollateralAssetId, zzvp.AnySdkInt())
	}
	w.bidder = zzvp.AnyString()
	var e1, e2 error
	w.addr, e1 = sdk.AccAddressFromBech32(w.bidder)
	w.owner, e2 = sdk.AccAddressFromBech32(lv.Owner)
	zzvp.Assume(zzvp.And(e1 == nil, e2 == nil))
	w.bid = sdk.Coin{Denom: zzvp.AnyString(), Amount: zzvp.AnySdkInt()}
	return w
}

func (w *vpDutchW) vpBid() error {
	msg := &types.MsgPlaceMarketBidRequest{AuctionId: w.a.AuctionId, Bidder: w.bidder, Amount: w.bid}
	zzvp.Assume(msg.ValidateBasic() == nil)
	_, err := NewMsgServerImpl(w.k).MsgPlaceMarketBid(sdk.WrapSDKContext(w.ctx), msg)
	return err
}

// C10 (second-generation Dutch auction, one bid): the bidder pays at most the remaining target and receives at most
// the remaining collateral; a partial bid reduces the auction by exactly what was paid and handed out and leaves both
// in custody accounting; the closing bid empties the auction: all of its collateral leaves custody (bidder + owner)
// and custody loses no more debt coins than this auction had collected.
func VP_C10_V2DutchBid() {
	w := vpDutchWorld()
	a, lv := w.a, w.lv
	// the bidder is a party of its own: not the owner, not the keeper that triggered the liquidation, not the external initiator
	ik, e3 := sdk.AccAddressFromBech32(lv.InternalKeeperAddress)
	ek, e4 := sdk.AccAddressFromBech32(lv.ExternalKeeperAddress)
	zzvp.Assume(zzvp.And(e3 == nil, e4 == nil, !w.addr.Equals(w.owner), !w.addr.Equals(ik), !w.addr.Equals(ek)))
	zzvp.Mark()
	if w.vpBid() != nil {
		return
	}
	zzvp.Reach("bid-accepted")
	custody := zzvp.ModuleAddr(types.ModuleName)
	D, C := a.DebtToken.Denom, a.CollateralToken.Denom
	paid := zzvp.ZI(zzvp.BalanceDelta(w.addr, D)).Neg()
	got := zzvp.ZI(zzvp.BalanceDelta(w.addr, C))
	zzvp.Assert(w.bid.Denom == D, "bid-in-the-debt-denomination")
	zzvp.Assert(zzvp.And(!paid.IsNegative(), paid.LTE(zzvp.ZI(a.DebtToken.Amount))), "bidder-pays-at-most-the-remaining-target")
	zzvp.Assert(zzvp.And(!got.IsNegative(), got.LTE(zzvp.ZI(a.CollateralToken.Amount))), "bidder-receives-at-most-the-remaining-collateral")
	post, errP := w.k.GetAuction(w.ctx, a.AuctionId)
	dCustD := zzvp.ZI(zzvp.BalanceDelta(custody, D))
	dCustC := zzvp.ZI(zzvp.BalanceDelta(custody, C))
	if errP == nil {
		zzvp.Reach("partial-bid")
		zzvp.Assert(zzvp.ZI(post.DebtToken.Amount).Equal(zzvp.ZI(a.DebtToken.Amount).Sub(paid)), "remaining-target-reduced-by-what-was-paid")
		zzvp.Assert(zzvp.ZI(post.CollateralToken.Amount).Equal(zzvp.ZI(a.CollateralToken.Amount).Sub(got)), "remaining-collateral-reduced-by-what-was-handed-out")
		zzvp.Assert(zzvp.And(dCustD.Equal(paid), dCustC.Equal(got.Neg())), "custody-moves-exactly-with-the-bid")
		zzvp.Assert(zzvp.And(!post.BonusAmount.IsNegative(), post.BonusAmount.LTE(a.BonusAmount)), "bonus-pool-only-shrinks")
	} else {
		zzvp.Reach("closing-bid")
		dOwner := zzvp.ZI(zzvp.BalanceDelta(w.owner, C))
		zzvp.Assert(dCustC.Equal(zzvp.ZI(a.CollateralToken.Amount).Neg()), "all-of-the-auctions-collateral-leaves-custody")
		zzvp.Assert(got.Add(dOwner).Equal(zzvp.ZI(a.CollateralToken.Amount)), "unsold-collateral-goes-to-the-owner")
		collected := zzvp.ZI(lv.TargetDebt.Amount).Sub(zzvp.ZI(a.DebtToken.Amount))
		zzvp.Assert(dCustD.GTE(collected.Neg()), "custody-loses-no-more-debt-coins-than-this-auction-had-collected")
		_, still := w.k.LiquidationsV2.GetLockedVault(w.ctx, a.AppId, a.LockedVaultId)
		zzvp.Assert(!still, "seized-position-record-removed")
	}
}

// C13 (collector books, second-generation Dutch close): the liquidation penalty that reaches the collector's custody
// is booked under the net-fee record of the asset it is denominated in (the debt asset), and no other record grows.
func VP_C13_V2DutchPenaltyBooking() {
	w := vpDutchWorld()
	a := w.a
	zzvp.Assume(w.vaultT)
	preD, hasD := w.ck.GetNetFeeCollectedData(w.ctx, a.AppId, a.DebtAssetId)
	preC, hasC := w.ck.GetNetFeeCollectedData(w.ctx, a.AppId, a.CollateralAssetId)
	zzvp.Mark()
	if w.vpBid() != nil {
		return
	}
	zzvp.Reach("bid-accepted")
	coll := zzvp.ModuleAddr(collectortypes.ModuleName)
	dCollD := zzvp.ZI(zzvp.BalanceDelta(coll, a.DebtToken.Denom))
	dCollC := zzvp.ZI(zzvp.BalanceDelta(coll, a.CollateralToken.Denom))
	postD, _ := w.ck.GetNetFeeCollectedData(w.ctx, a.AppId, a.DebtAssetId)
	postC, _ := w.ck.GetNetFeeCollectedData(w.ctx, a.AppId, a.CollateralAssetId)
	dRecD := zzvp.ZI(postD.NetFeesCollected).Sub(zzvp.IteZ(hasD, zzvp.ZI(preD.NetFeesCollected), zzvp.ZN(0)))
	dRecC := zzvp.ZI(postC.NetFeesCollected).Sub(zzvp.IteZ(hasC, zzvp.ZI(preC.NetFeesCollected), zzvp.ZN(0)))
	zzvp.Assert(dRecD.Equal(dCollD), "penalty-booked-under-the-debt-asset-it-is-paid-in")
	zzvp.Assert(dRecC.Equal(dCollC), "collateral-assets-record-grows-only-with-collateral-coins")
}
