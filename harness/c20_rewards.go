//vp:target x/rewards/zz_vp_c20.go
//vp:load ./app
//go:build verif

package rewards

import (
	"github.com/comdex-official/comdex/x/rewards/keeper"
	"github.com/comdex-official/comdex/x/rewards/types"
	"github.com/comdex-official/comdex/zzvp"
)

// C20 (rewards module, external reward programs and gauges): export + import carries the records, and each id counter
// is such that the next program / gauge created on the new chain does not reuse the id of an existing one (records are
// keyed by id: a reused id overwrites the existing program). Closed world; each counter is the id of the newest record.
func VP_C20_RewardsRoundTrip() {
	var k keeper.Keeper
	zzvp.Wire(&k)
	ctx := zzvp.EmptyCtx()
	var lr types.LockerExternalRewards
	zzvp.AnyOf(&lr)
	zzvp.Assume(lr.Id >= 1)
	k.SetExternalRewardsLockers(ctx, lr)
	k.SetExternalRewardsLockersID(ctx, lr.Id)
	var vr types.VaultExternalRewards
	zzvp.AnyOf(&vr)
	zzvp.Assume(vr.Id >= 1)
	k.SetExternalRewardVault(ctx, vr)
	k.SetExternalRewardsVaultID(ctx, vr.Id)
	g := ExportGenesis(ctx, k)
	ctx2 := zzvp.EmptyCtx()
	InitGenesis(ctx2, k, g)
	zzvp.Reach("round-trip-done")
	lr2 := k.GetExternalRewardsLocker(ctx2, lr.Id)
	zzvp.Assert(zzvp.And(lr2.Id == lr.Id, lr2.AppMappingId == lr.AppMappingId, lr2.AssetId == lr.AssetId), "locker-reward-program-carried-over")
	zzvp.Assert(k.GetExternalRewardsLockersID(ctx2) >= lr.Id, "next-locker-reward-id-does-not-collide")
	zzvp.Assert(k.GetExternalRewardsVaultID(ctx2) >= vr.Id, "next-vault-reward-id-does-not-collide")
}
