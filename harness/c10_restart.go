//vp:target x/auctionsV2/keeper/zz_vp_c10r.go
//vp:load ./app
//go:build verif

package keeper

import (
	"time"

	sdk "github.com/cosmos/cosmos-sdk/types"

	"github.com/comdex-official/comdex/x/auctionsV2/types"
	liqkeeper "github.com/comdex-official/comdex/x/liquidationsV2/keeper"
	liqtypes "github.com/comdex-official/comdex/x/liquidationsV2/types"
	marketkeeper "github.com/comdex-official/comdex/x/market/keeper"
	markettypes "github.com/comdex-official/comdex/x/market/types"
	"github.com/comdex-official/comdex/zzvp"
)

// C10 (restart of a second-generation Dutch auction that ran out of time): the new round starts on a fresh price line -
// posted price and the line's origin (stored initial price) are both the current oracle price times the premium, the
// round lasts the configured duration from now, and nothing else of the auction (collateral, debt, ids) changes; a
// restart without active prices is refused and changes nothing. Closed world, real arithmetic, arbitrary previous round.
func VP_C10_V2RestartStartsAFreshPriceLine() {
	var k Keeper
	zzvp.Wire(&k)
	var lk liqkeeper.Keeper
	zzvp.Wire(&lk)
	var mk marketkeeper.Keeper
	zzvp.Wire(&mk)
	ctx := zzvp.ClosedCtx()
	var a types.Auction
	zzvp.AnyOf(&a)
	a.AuctionType = true
	zzvp.Assume(zzvp.And(a.AuctionId != 0, a.CollateralAssetId != a.DebtAssetId))
	_ = k.SetAuction(ctx, a)
	var wl liqtypes.LiquidationWhiteListing
	zzvp.AnyOf(&wl)
	wl.AppId = a.AppId
	zzvp.Assume(wl.DutchAuctionParam != nil)
	zzvp.Assume(zzvp.And(!wl.DutchAuctionParam.Premium.IsNegative(), wl.DutchAuctionParam.Premium.LTE(sdk.NewDec(100))))
	lk.SetLiquidationWhiteListing(ctx, wl)
	var lv liqtypes.LockedVault
	zzvp.AnyOf(&lv)
	lv.LockedVaultId, lv.AppId = a.LockedVaultId, a.AppId
	lk.SetLockedVault(ctx, lv)
	var params types.AuctionParams
	zzvp.AnyOf(&params)
	zzvp.Assume(params.AuctionDurationSeconds <= 1000000000)
	k.SetAuctionParams(ctx, params)
	var tc, td markettypes.TimeWeightedAverage
	zzvp.AnyOf(&tc)
	zzvp.AnyOf(&td)
	tc.AssetID, td.AssetID = a.CollateralAssetId, a.DebtAssetId
	zzvp.Assume(zzvp.And(tc.Twa <= 10000000000000, td.Twa <= 10000000000000))
	hasC, hasD := zzvp.AnyBool(), zzvp.AnyBool()
	if hasC {
		mk.SetTwa(ctx, tc)
	}
	if hasD {
		mk.SetTwa(ctx, td)
	}
	err := k.RestartDutchAuction(ctx, a)
	post, gerr := k.GetAuction(ctx, a.AuctionId)
	zzvp.Assert(gerr == nil, "auction-still-stored")
	if err != nil {
		zzvp.Reach("restart-refused")
		zzvp.Assert(zzvp.And(post.CollateralTokenAuctionPrice.Equal(a.CollateralTokenAuctionPrice), post.CollateralTokenInitialPrice.Equal(a.CollateralTokenInitialPrice),
			post.StartTime.Equal(a.StartTime), post.EndTime.Equal(a.EndTime)), "refused-restart-changes-nothing")
		return
	}
	zzvp.Reach("restarted")
	zzvp.Assert(zzvp.And(hasC, tc.IsPriceActive, hasD, td.IsPriceActive), "restart-needs-both-prices-active")
	start := k.GetCollalteralTokenInitialPrice(sdk.NewIntFromUint64(tc.Twa), wl.DutchAuctionParam.Premium)
	zzvp.Assert(post.CollateralTokenAuctionPrice.Equal(start), "posted-price-restarts-at-oracle-price-times-premium")
	zzvp.Assert(post.CollateralTokenInitialPrice.Equal(start), "price-line-restarts-at-the-same-price")
	zzvp.Assert(post.StartTime.Equal(ctx.BlockTime()), "round-starts-now")
	zzvp.Assert(post.EndTime.Equal(ctx.BlockTime().Add(time.Second*time.Duration(params.AuctionDurationSeconds))), "round-lasts-the-configured-duration")
	zzvp.Assert(zzvp.And(post.CollateralToken.Amount.Equal(a.CollateralToken.Amount), post.DebtToken.Amount.Equal(a.DebtToken.Amount),
		post.CollateralToken.Denom == a.CollateralToken.Denom, post.DebtToken.Denom == a.DebtToken.Denom,
		post.LockedVaultId == a.LockedVaultId, post.AppId == a.AppId), "restart-leaves-collateral-debt-and-ids-alone")
}
