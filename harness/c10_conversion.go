//vp:target x/vault/keeper/zz_vp_c10.go
//vp:load ./app
//go:build verif

package keeper

import (
	sdk "github.com/cosmos/cosmos-sdk/types"

	assetkeeper "github.com/comdex-official/comdex/x/asset/keeper"
	assettypes "github.com/comdex-official/comdex/x/asset/types"
	"github.com/comdex-official/comdex/zzvp"
)

var vpConvDecimals = [][2]int64{{1000000, 1000000}, {1000000, 100000000}, {100000000, 1000000}, {1, 1000000}, {1000000, 1000000000000000000}, {1000000000000000000, 1000000}}

func vpConvWorld() (Keeper, sdk.Context, uint64, uint64, int64, int64) {
	zzvp.Option("no-region-merge")
	var k Keeper
	zzvp.Wire(&k)
	var ak assetkeeper.Keeper
	zzvp.Wire(&ak)
	ctx := zzvp.EmptyCtx()
	dp := vpConvDecimals[zzvp.Choose(len(vpConvDecimals))]
	var a1, a2 assettypes.Asset
	zzvp.AnyOf(&a1)
	zzvp.AnyOf(&a2)
	zzvp.Assume(a1.Id != a2.Id)
	a1.Decimals, a2.Decimals = sdk.NewInt(dp[0]), sdk.NewInt(dp[1])
	ak.SetAsset(ctx, a1)
	ak.SetAsset(ctx, a2)
	return k, ctx, a1.Id, a2.Id, dp[0], dp[1]
}

// C10 (posted price): the conversion used by every Dutch bid (debt paid -> collateral handed out at the posted price)
// never yields more than the exact quotient plus one smallest collateral unit. Real arithmetic; decimal scales from a
// grid; the amount, the debt price and the posted collateral price are symbolic (prices at least one micro-unit).
func VP_C10_ConversionNeverExceedsPostedPrice() {
	k, ctx, id1, id2, d1, d2 := vpConvWorld()
	amt := zzvp.AnySdkInt()
	r1, r2 := zzvp.AnyDec(), zzvp.AnyDec()
	lim, _ := sdk.NewIntFromString("1000000000000000000000000")
	zzvp.Assume(zzvp.And(!amt.IsNegative(), amt.LTE(lim)))
	zzvp.Assume(zzvp.And(r1.GTE(sdk.OneDec()), r1.LTE(sdk.NewDec(10000000000000)), r2.GTE(sdk.OneDec()), r2.LTE(sdk.NewDec(10000000000000))))
	_, out, err := k.GetAmountOfOtherToken(ctx, id1, r1, amt, id2, r2)
	if err != nil {
		return
	}
	zzvp.Reach("converted")
	Z := zzvp.ZI
	// out * d1 * r2 <= amt * r1 * d2 + d1 * r2   (out <= exact + 1)
	lhs := Z(out).Mul(zzvp.ZN(d1)).Mul(zzvp.ZD(r2))
	rhs := Z(amt).Mul(zzvp.ZD(r1)).Mul(zzvp.ZN(d2)).Add(zzvp.ZN(d1).Mul(zzvp.ZD(r2)))
	zzvp.Assert(lhs.LTE(rhs), "collateral-out<=exact-quotient+one-unit")
	zzvp.Assert(!out.IsNegative(), "non-negative")
}

// C10 (contract used by the bid obligations): the conversion is non-decreasing in the amount, relative to a grid of
// amounts (for every grid amount g: all larger amounts convert to at least conv(g), all smaller to at most conv(g)).
func VP_C10_ConversionMonotone() {
	k, ctx, id1, id2, _, _ := vpConvWorld()
	grid := []int64{0, 1, 999999, 1000000, 123456789012345, 1 << 62}
	g := sdk.NewInt(grid[zzvp.Choose(len(grid))])
	rates := []string{"1", "1000000", "1234567.890123456789012345", "9999999999999"}
	r1 := sdk.MustNewDecFromStr(rates[zzvp.Choose(len(rates))])
	r2 := sdk.MustNewDecFromStr(rates[zzvp.Choose(len(rates))])
	amt := zzvp.AnySdkInt()
	lim, _ := sdk.NewIntFromString("1000000000000000000000000")
	zzvp.Assume(zzvp.And(!amt.IsNegative(), amt.LTE(lim)))
	_, og, e1 := k.GetAmountOfOtherToken(ctx, id1, r1, g, id2, r2)
	_, oa, e2 := k.GetAmountOfOtherToken(ctx, id1, r1, amt, id2, r2)
	if e1 != nil || e2 != nil {
		return
	}
	zzvp.Reach("converted")
	zzvp.Assert(zzvp.Implies(amt.GTE(g), oa.GTE(og)), "larger-amount-converts-to-at-least-as-much")
	zzvp.Assert(zzvp.Implies(amt.LTE(g), oa.LTE(og)), "smaller-amount-converts-to-at-most-as-much")
}
