//vp:target x/locker/keeper/zz_vp_c14.go
//vp:load ./app
//go:build verif

package keeper

import "github.com/comdex-official/comdex/zzvp"

// C14 (lockers): with the circuit breaker on, or after emergency shutdown, no locker can be opened or enlarged.
func vpC14Locker(h int) {
	w := vpLockerWorld()
	zzvp.Mark()
	if w.vpLockerCall(h) != nil {
		return
	}
	zzvp.Reach("handler-succeeded")
	zzvp.Assert(!w.breaker, "refused-while-circuit-breaker-on")
	zzvp.Assert(!w.esmOn, "refused-after-emergency-shutdown")
}

func VP_C14_LockerMsgCreateLocker() { vpC14Locker(vpLCreate) }
func VP_C14_LockerMsgDepositAsset() { vpC14Locker(vpLDeposit) }
