//vp:target x/vault/keeper/zz_vp_c15.go
//vp:load ./app
//go:build verif

package keeper

import (
	"fmt"

	sdk "github.com/cosmos/cosmos-sdk/types"

	utils "github.com/comdex-official/comdex/types"
	"github.com/comdex-official/comdex/x/vault/types"
	"github.com/comdex-official/comdex/zzvp"
)

// C15 (1): the wrapper every block hook uses for one unit of work, utils.ApplyFuncIfNoError, is all-or-nothing and
// never lets a panic escape: whatever the unit does through the context it is given (store writes, coin movements),
// if it returns an error or panics, or a store / bank access inside it fails at ANY point (fault index chosen by the
// solver), none of its effects are visible afterwards and the wrapper returns normally with an error; if it
// succeeds all of its effects are visible.
func VP_C15_ApplyFuncIsAllOrNothing() {
	var k Keeper
	zzvp.Wire(&k)
	ctx := zzvp.Ctx()
	preLen, preID := k.GetLengthOfVault(ctx), k.GetIDForVault(ctx)
	user := zzvp.AnyAddr()
	denom := zzvp.AnyString()
	amt := zzvp.AnySdkInt()
	zzvp.Assume(amt.IsPositive())
	mode, n := zzvp.AnyUint64(), zzvp.AnyUint64()
	zzvp.Mark()
	zzvp.InjectFault()
	var err error
	escaped := zzvp.Try(func() {
		err = utils.ApplyFuncIfNoError(ctx, func(c sdk.Context) error {
			k.SetLengthOfVault(c, n)
			if e := k.bank.SendCoinsFromAccountToModule(c, user, types.ModuleName, sdk.NewCoins(sdk.NewCoin(denom, amt))); e != nil {
				return e
			}
			if mode == 1 {
				return fmt.Errorf("unit failed")
			}
			if mode == 2 {
				panic("unit panicked")
			}
			k.SetIDForVault(c, n)
			return nil
		})
	})
	zzvp.StopFaults()
	zzvp.Reach("wrapper-returned")
	zzvp.Assert(!escaped, "no-panic-escapes-the-wrapper")
	if escaped {
		return
	}
	postLen, postID := k.GetLengthOfVault(ctx), k.GetIDForVault(ctx)
	dUser := zzvp.BalanceDelta(user, denom)
	if err != nil {
		zzvp.Reach("unit-failed")
		zzvp.Assert(zzvp.And(postLen == preLen, postID == preID), "no-store-write-visible-after-failure")
		zzvp.Assert(dUser.IsZero(), "no-coin-movement-visible-after-failure")
	} else {
		zzvp.Reach("unit-succeeded")
		zzvp.Assert(zzvp.And(mode != 1, mode != 2), "failure-is-reported")
		zzvp.Assert(zzvp.And(postLen == n, postID == n), "all-store-writes-visible-after-success")
		zzvp.Assert(zzvp.ZI(dUser).Equal(zzvp.ZI(amt).Neg()), "coin-movement-visible-after-success")
	}
}
