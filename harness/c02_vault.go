//vp:target x/vault/keeper/zz_vp_c02.go
//vp:load ./app
//go:build verif

package keeper

import (
	sdk "github.com/cosmos/cosmos-sdk/types"

	"github.com/comdex-official/comdex/zzvp"
)

// C02, one inductive step per vault message (no liquidation in the step, so the supply statement is exact):
// the circulating supply of the debt asset moves exactly with the recorded principal; every debt coin that is minted,
// burned or paid ends up with the user, the fee collector or is burned (nothing stays in vault custody, nobody else is
// paid); on a mint the collector receives exactly trunc(minted * draw-down fee) and the user the rest; on repay/close
// the collector only ever gains (interest and closing fee come out of existing supply).
func vpC02(h int) {
	w := vpVaultWorld(!zzvp.Thorough())
	user, errA := sdk.AccAddressFromBech32(w.from)
	zzvp.Assume(errA == nil)
	zzvp.Mark()
	if w.vpVaultCall(h) != nil {
		return
	}
	zzvp.Reach("handler-succeeded")
	_, dOut, _, _ := w.vpPositionDeltas(h)
	sup := zzvp.ZI(zzvp.SupplyDelta(w.out.Denom))
	zzvp.Assert(sup.Equal(dOut), "supply-delta=recorded-principal-delta")
	zzvp.Assert(zzvp.SupplyDelta(w.in.Denom).IsZero(), "collateral-asset-is-never-minted-or-burned")
	dU := zzvp.ZI(zzvp.BalanceDelta(user, w.out.Denom))
	dC := zzvp.ZI(zzvp.BalanceDelta(vpCollectorModule(), w.out.Denom))
	dV := zzvp.ZI(zzvp.BalanceDelta(vpVaultModule(), w.out.Denom))
	zzvp.Assert(dU.Add(dC).Add(dV).Equal(sup), "debt-coins-go-only-to-user-collector-or-are-burned")
	zzvp.Assert(dV.IsZero(), "no-debt-coins-stay-in-custody")
	zzvp.Assert(!dC.IsNegative(), "collector-never-pays")
	switch h {
	case vpHCreate, vpHDraw, vpHDepositAndDraw, vpHCreateStable, vpHDepositStable:
		// mint: fee = trunc(minted * DrawDownFee), user gets minted - fee
		fee := zzvp.ZD(w.ext.DrawDownFee) // mantissa (fee * 10^18)
		e18 := zzvp.Pow10(18)
		zzvp.Assert(zzvp.And(dC.Mul(e18).LTE(dOut.Mul(fee)), dOut.Mul(fee).LT(dC.Add(zzvp.ZN(1)).Mul(e18))), "collector-gets-exactly-the-draw-down-fee")
		zzvp.Assert(dU.Equal(dOut.Sub(dC)), "user-gets-minted-principal-less-fee")
		zzvp.Assert(!dOut.IsNegative(), "mint-never-reduces-principal")
	case vpHRepay, vpHClose, vpHWithdrawStable:
		zzvp.Assert(!dOut.IsPositive(), "repay-never-increases-principal")
		zzvp.Assert(dU.Equal(dOut.Sub(dC)), "user-pays-retired-principal-plus-fees")
	default:
		zzvp.Assert(zzvp.And(dOut.IsZero(), dU.IsZero(), dC.IsZero()), "no-debt-movement")
	}
}

func VP_C02_MsgCreate()             { vpC02(vpHCreate) }
func VP_C02_MsgDeposit()            { vpC02(vpHDeposit) }
func VP_C02_MsgWithdraw()           { vpC02(vpHWithdraw) }
func VP_C02_MsgDraw()               { vpC02(vpHDraw) }
func VP_C02_MsgRepay()              { vpC02(vpHRepay) }
func VP_C02_MsgClose()              { vpC02(vpHClose) }
func VP_C02_MsgDepositAndDraw()     { vpC02(vpHDepositAndDraw) }
func VP_C02_MsgCreateStableMint()   { vpC02(vpHCreateStable) }
func VP_C02_MsgDepositStableMint()  { vpC02(vpHDepositStable) }
func VP_C02_MsgWithdrawStableMint() { vpC02(vpHWithdrawStable) }
func VP_C02_MsgVaultInterestCalc()  { vpC02(vpHInterestCalc) }
