//vp:target x/lend/keeper/zz_vp_c08_lend.go
//vp:load ./app
//go:build verif

package keeper

import (
	sdk "github.com/cosmos/cosmos-sdk/types"

	assetkeeper "github.com/comdex-official/comdex/x/asset/keeper"
	assettypes "github.com/comdex-official/comdex/x/asset/types"
	marketkeeper "github.com/comdex-official/comdex/x/market/keeper"
	markettypes "github.com/comdex-official/comdex/x/market/types"
	"github.com/comdex-official/comdex/x/lend/types"
	"github.com/comdex-official/comdex/zzvp"
)

// C08, books mode: one message from an arbitrary pre-state (lazily havocked store and bank). Interest accrual, rates
// and the oracle valuation are contract stubs (they write nothing here: accrual has its own obligations under C18);
// the bookkeeping (positions, published pool totals, coin movements) is the real code.
// Identity kept by every step: published TotalLend moves with the lend position's AvailableToBorrow (pledged
// collateral unchanged), published TotalBorrowed / TotalStableBorrowed move with the borrow position's principal.

const vpVerifyLTV = vpLK + "VerifyCollateralizationRatio"

// the signer is a user account, not the pool's module account (module accounts cannot sign)
func vpNotAModule(bech string, module string) {
	a, err := sdk.AccAddressFromBech32(bech)
	zzvp.Assume(err == nil && !a.Equals(zzvp.ModuleAddr(module)))
}

// configuration invariant: the receipt token (cAsset) of an asset is a different denomination than the asset
func vpReceiptTokenIsAnotherDenom(k Keeper, ak assetkeeper.Keeper, ctx sdk.Context, assetID uint64) {
	a, _ := ak.GetAsset(ctx, assetID)
	r, _ := k.GetAssetRatesParams(ctx, assetID)
	c, _ := ak.GetAsset(ctx, r.CAssetID)
	zzvp.Assume(a.Denom != c.Denom)
}

// Draw: succeeds only if the loan-to-value gate was asked about THIS borrow's collateral, its debt after the draw
// (principal + accrued interest + new loan) and the pair's LTV (e-mode LTV for e-mode pairs) and agreed, and the pool
// holds the coins; the published total borrowed moves by exactly the drawn amount.
func VP_C08_Draw() {
	k, ctx := vpLendWorldWith()
	var ak assetkeeper.Keeper
	zzvp.Wire(&ak)
	msg := types.MsgDraw{Borrower: zzvp.AnyString(), BorrowId: zzvp.AnyUint64(), Amount: vpAnyCoin()}
	zzvp.Assume(msg.ValidateBasic() == nil)
	b, _ := k.GetBorrow(ctx, msg.BorrowId)
	zzvp.Assume(b.ID == msg.BorrowId)
	pair, _ := k.GetLendPair(ctx, b.PairID)
	pool, _ := k.GetPool(ctx, pair.AssetOutPoolID)
	assetOut, _ := ak.GetAsset(ctx, pair.AssetOut)
	rates, _ := k.GetAssetRatesParams(ctx, pair.AssetIn)
	stats0, _ := k.GetAssetStatsByPoolIDAndAssetID(ctx, pair.AssetOutPoolID, pair.AssetOut)
	zzvp.Assume(stats0.PoolID == pair.AssetOutPoolID && stats0.AssetID == pair.AssetOut) // stored under its own ids
	// record coherence: the borrow's principal is denominated in the pair's out-asset (BorrowAsset builds it that way)
	zzvp.Assume(b.AmountOut.Denom == assetOut.Denom)
	poolBal := zzvp.Balance(ctx, zzvp.ModuleAddr(pool.ModuleName), assetOut.Denom)
	vpNotAModule(msg.Borrower, pool.ModuleName)
	zzvp.Mark()
	_, err := NewMsgServerImpl(k).Draw(sdk.WrapSDKContext(ctx), &msg)
	if err != nil {
		return
	}
	zzvp.Reach("draw-succeeded")
	zzvp.Assert(zzvp.SpyCount(vpVerifyLTV) == 1 && zzvp.SpyErrNil(vpVerifyLTV, 0), "loan-to-value-gate-asked-and-agreed")
	zzvp.Assert(zzvp.SpyArgZ(vpVerifyLTV, 0, 2).Equal(zzvp.ZI(b.AmountIn.Amount)), "gate-sees-the-borrows-collateral")
	debt := zzvp.ZI(b.AmountOut.Amount).Add(zzvp.ZI(b.InterestAccumulated.TruncateInt())).Add(zzvp.ZI(msg.Amount.Amount))
	zzvp.Assert(zzvp.SpyArgZ(vpVerifyLTV, 0, 4).Equal(debt), "gate-sees-principal-plus-interest-plus-new-loan")
	ltv := rates.Ltv
	if pair.IsEModeEnabled {
		ltv = rates.ELtv
	}
	zzvp.Assert(zzvp.SpyArgZ(vpVerifyLTV, 0, 6).Equal(zzvp.ZD(ltv)), "gate-uses-the-pairs-loan-to-value-ratio")
	zzvp.Assert(msg.Amount.Amount.LTE(poolBal), "pool-holds-the-lent-out-coins")
	b1, _ := k.GetBorrow(ctx, msg.BorrowId)
	stats1, _ := k.GetAssetStatsByPoolIDAndAssetID(ctx, pair.AssetOutPoolID, pair.AssetOut)
	zzvp.Assert(b1.AmountOut.Amount.Sub(b.AmountOut.Amount).Equal(msg.Amount.Amount), "principal-grows-by-the-drawn-amount")
	if b.IsStableBorrow {
		zzvp.Assert(stats1.TotalStableBorrowed.Sub(stats0.TotalStableBorrowed).Equal(msg.Amount.Amount) && stats1.TotalBorrowed.Equal(stats0.TotalBorrowed), "published-stable-borrowed-moves-with-the-principal")
	} else {
		zzvp.Assert(stats1.TotalBorrowed.Sub(stats0.TotalBorrowed).Equal(msg.Amount.Amount) && stats1.TotalStableBorrowed.Equal(stats0.TotalStableBorrowed), "published-borrowed-moves-with-the-principal")
	}
	zzvp.Assert(stats1.TotalLend.Equal(stats0.TotalLend), "published-lent-untouched-by-a-draw")
	zzvp.Assert(zzvp.BalanceDelta(zzvp.ModuleAddr(pool.ModuleName), assetOut.Denom).Equal(msg.Amount.Amount.Neg()), "pool-pays-exactly-the-drawn-amount")
}

// Repay (partial): the published total borrowed moves by exactly the change of the borrow's principal, whatever part of
// the payment goes to interest and to the reserve.
func VP_C08_Repay() {
	k, ctx := vpLendWorldWith("UpdateReserveAmtFromRepayments")
	msg := types.MsgRepay{Borrower: zzvp.AnyString(), BorrowId: zzvp.AnyUint64(), Amount: vpAnyCoin()}
	zzvp.Assume(msg.ValidateBasic() == nil)
	b, _ := k.GetBorrow(ctx, msg.BorrowId)
	zzvp.Assume(b.ID == msg.BorrowId)
	// the full repayment is CloseBorrow's obligation
	zzvp.Assume(!msg.Amount.Amount.Equal(b.AmountOut.Amount.Add(b.InterestAccumulated.TruncateInt())))
	zzvp.Assume(!b.InterestAccumulated.IsNegative() && !b.AmountOut.Amount.IsNegative())
	pair, _ := k.GetLendPair(ctx, b.PairID)
	stats0, _ := k.GetAssetStatsByPoolIDAndAssetID(ctx, pair.AssetOutPoolID, pair.AssetOut)
	zzvp.Assume(stats0.PoolID == pair.AssetOutPoolID && stats0.AssetID == pair.AssetOut)
	// invariant of the accrual (IterateBorrow adds interest*reserveFactor to the tracker and interest to the borrow,
	// reserve factor <= 1): the reserve's share of the accrued interest never exceeds the accrued interest
	tr, _ := k.GetBorrowInterestTracker(ctx, msg.BorrowId)
	zzvp.Assume(!tr.ReservePoolInterest.IsNegative() && tr.ReservePoolInterest.LTE(b.InterestAccumulated))
	_, err := NewMsgServerImpl(k).Repay(sdk.WrapSDKContext(ctx), &msg)
	if err != nil {
		return
	}
	zzvp.Reach("repay-succeeded")
	b1, _ := k.GetBorrow(ctx, msg.BorrowId)
	stats1, _ := k.GetAssetStatsByPoolIDAndAssetID(ctx, pair.AssetOutPoolID, pair.AssetOut)
	dPrincipal := b1.AmountOut.Amount.Sub(b.AmountOut.Amount)
	zzvp.Assert(!dPrincipal.IsPositive(), "a-repayment-never-increases-the-principal")
	zzvp.Assert(!b1.AmountOut.Amount.IsNegative() && !b1.InterestAccumulated.IsNegative(), "principal-and-interest-stay-non-negative")
	if b.IsStableBorrow {
		zzvp.Assert(stats1.TotalStableBorrowed.Sub(stats0.TotalStableBorrowed).Equal(dPrincipal) && stats1.TotalBorrowed.Equal(stats0.TotalBorrowed), "published-stable-borrowed-moves-with-the-principal")
	} else {
		zzvp.Assert(stats1.TotalBorrowed.Sub(stats0.TotalBorrowed).Equal(dPrincipal) && stats1.TotalStableBorrowed.Equal(stats0.TotalStableBorrowed), "published-borrowed-moves-with-the-principal")
	}
	zzvp.Assert(stats1.TotalLend.Equal(stats0.TotalLend), "published-lent-untouched-by-a-repayment")
	// debt paid down by exactly the payment: principal + interest (interest keeps its fraction)
	paid := zzvp.ZI(b.AmountOut.Amount).Mul(zzvp.Pow10(18)).Add(zzvp.ZD(b.InterestAccumulated)).Sub(zzvp.ZI(b1.AmountOut.Amount).Mul(zzvp.Pow10(18))).Sub(zzvp.ZD(b1.InterestAccumulated))
	zzvp.Assert(paid.Equal(zzvp.ZI(msg.Amount.Amount).Mul(zzvp.Pow10(18))), "debt-falls-by-exactly-the-payment")
}

// Withdraw (partial): never more than what is still available to borrow (pledged collateral is not released); the
// published total lent moves with the position.
func VP_C08_Withdraw() {
	k, ctx := vpLendWorldWith()
	var ak assetkeeper.Keeper
	zzvp.Wire(&ak)
	msg := types.MsgWithdraw{Lender: zzvp.AnyString(), LendId: zzvp.AnyUint64(), Amount: vpAnyCoin()}
	zzvp.Assume(msg.ValidateBasic() == nil)
	l, _ := k.GetLend(ctx, msg.LendId)
	zzvp.Assume(l.ID == msg.LendId)
	// withdrawing everything closes the position: CloseLend's obligation
	zzvp.Assume(!zzvp.And(msg.Amount.Amount.Equal(l.AvailableToBorrow), l.AvailableToBorrow.GTE(l.AmountIn.Amount)))
	pool, _ := k.GetPool(ctx, l.PoolID)
	stats0, _ := k.GetAssetStatsByPoolIDAndAssetID(ctx, l.PoolID, l.AssetID)
	zzvp.Assume(stats0.PoolID == l.PoolID && stats0.AssetID == l.AssetID)
	vpNotAModule(msg.Lender, pool.ModuleName)
	vpReceiptTokenIsAnotherDenom(k, ak, ctx, l.AssetID)
	zzvp.Mark()
	_, err := NewMsgServerImpl(k).Withdraw(sdk.WrapSDKContext(ctx), &msg)
	if err != nil {
		return
	}
	zzvp.Reach("withdraw-succeeded")
	zzvp.Assert(msg.Amount.Amount.LTE(l.AvailableToBorrow), "pledged-collateral-is-never-released")
	l1, _ := k.GetLend(ctx, msg.LendId)
	stats1, _ := k.GetAssetStatsByPoolIDAndAssetID(ctx, l.PoolID, l.AssetID)
	zzvp.Assert(l1.AvailableToBorrow.Sub(l.AvailableToBorrow).Equal(msg.Amount.Amount.Neg()), "available-to-borrow-falls-by-the-withdrawn-amount")
	zzvp.Assert(stats1.TotalLend.Sub(stats0.TotalLend).Equal(msg.Amount.Amount.Neg()), "published-lent-moves-with-the-position")
	zzvp.Assert(stats1.TotalBorrowed.Equal(stats0.TotalBorrowed) && stats1.TotalStableBorrowed.Equal(stats0.TotalStableBorrowed), "published-borrowed-untouched-by-a-withdrawal")
	zzvp.Assert(zzvp.BalanceDelta(zzvp.ModuleAddr(pool.ModuleName), msg.Amount.Denom).Equal(msg.Amount.Amount.Neg()), "pool-pays-exactly-the-withdrawn-amount")
}

// Deposit into a lend position: position, published total and pool custody grow by the deposit.
func VP_C08_Deposit() {
	k, ctx := vpLendWorldWith()
	var ak assetkeeper.Keeper
	zzvp.Wire(&ak)
	msg := types.MsgDeposit{Lender: zzvp.AnyString(), LendId: zzvp.AnyUint64(), Amount: vpAnyCoin()}
	zzvp.Assume(msg.ValidateBasic() == nil)
	l, _ := k.GetLend(ctx, msg.LendId)
	zzvp.Assume(l.ID == msg.LendId)
	pool, _ := k.GetPool(ctx, l.PoolID)
	stats0, _ := k.GetAssetStatsByPoolIDAndAssetID(ctx, l.PoolID, l.AssetID)
	zzvp.Assume(stats0.PoolID == l.PoolID && stats0.AssetID == l.AssetID)
	vpNotAModule(msg.Lender, pool.ModuleName)
	vpReceiptTokenIsAnotherDenom(k, ak, ctx, l.AssetID)
	zzvp.Mark()
	_, err := NewMsgServerImpl(k).Deposit(sdk.WrapSDKContext(ctx), &msg)
	if err != nil {
		return
	}
	zzvp.Reach("deposit-succeeded")
	l1, _ := k.GetLend(ctx, msg.LendId)
	stats1, _ := k.GetAssetStatsByPoolIDAndAssetID(ctx, l.PoolID, l.AssetID)
	zzvp.Assert(l1.AvailableToBorrow.Sub(l.AvailableToBorrow).Equal(msg.Amount.Amount) && l1.AmountIn.Amount.Sub(l.AmountIn.Amount).Equal(msg.Amount.Amount), "position-grows-by-the-deposit")
	zzvp.Assert(stats1.TotalLend.Sub(stats0.TotalLend).Equal(msg.Amount.Amount), "published-lent-moves-with-the-position")
	zzvp.Assert(stats1.TotalBorrowed.Equal(stats0.TotalBorrowed) && stats1.TotalStableBorrowed.Equal(stats0.TotalStableBorrowed), "published-borrowed-untouched-by-a-deposit")
	zzvp.Assert(zzvp.BalanceDelta(zzvp.ModuleAddr(pool.ModuleName), msg.Amount.Denom).Equal(msg.Amount.Amount), "pool-receives-exactly-the-deposit")
}

var vpLendDecimalPairs = [][2]int64{{1000000, 1000000}, {1000000, 100000000}, {100000000, 1000000}, {1, 1000000}, {1000000, 1},
	{1000000, 1000000000000000000}, {1000000000000000000, 1000000}, {1000000000000000000, 1000000000000000000}}

const vpLendQuickPairs = 5 // pairs involving 10^18: thorough tier (long non-linear queries)

// C08 gate lemma (real arithmetic of VerifyCollateralizationRatio -> CalculateCollateralizationRatio -> market
// CalcAssetPrice): the gate agrees only if both prices are present and active and the exact debt value does not exceed
// the exact collateral value times the loan-to-value ratio, up to the three decimal roundings of the implementation.
// Decimal scales from a grid; amounts (<= 10^24), prices (<= 10^13) and the ratio (<= 1) symbolic.
func VP_C08_GateLemma() {
	var k Keeper
	zzvp.Wire(&k)
	var mk marketkeeper.Keeper
	zzvp.Wire(&mk)
	var ak assetkeeper.Keeper
	zzvp.Wire(&ak)
	ctx := zzvp.EmptyCtx()
	var ai, ao assettypes.Asset
	zzvp.AnyOf(&ai)
	zzvp.AnyOf(&ao)
	var ti, to markettypes.TimeWeightedAverage
	zzvp.AnyOf(&ti)
	zzvp.AnyOf(&to)
	zzvp.Assume(zzvp.And(ai.Id != ao.Id, ti.AssetID == ai.Id, to.AssetID == ao.Id))
	np := vpLendQuickPairs
	if zzvp.Thorough() {
		np = len(vpLendDecimalPairs)
	}
	dp := vpLendDecimalPairs[zzvp.Choose(np)]
	dI, dO := dp[0], dp[1]
	ai.Decimals, ao.Decimals = sdk.NewInt(dI), sdk.NewInt(dO)
	ltv := zzvp.AnyDec()
	zzvp.Assume(zzvp.And(ti.Twa <= 10000000000000, to.Twa <= 10000000000000, !ltv.IsNegative(), ltv.LTE(sdk.OneDec())))
	ak.SetAsset(ctx, ai)
	ak.SetAsset(ctx, ao)
	hasIn, hasOut := zzvp.AnyBool(), zzvp.AnyBool()
	if hasIn {
		mk.SetTwa(ctx, ti)
	}
	if hasOut {
		mk.SetTwa(ctx, to)
	}
	in, out := zzvp.AnySdkInt(), zzvp.AnySdkInt()
	lim, _ := sdk.NewIntFromString("1000000000000000000000000")
	zzvp.Assume(zzvp.And(in.IsPositive(), out.IsPositive(), in.LTE(lim), out.LTE(lim)))
	var err error
	if zzvp.Try(func() { err = k.VerifyCollateralizationRatio(ctx, in, ai, out, ao, ltv) }) || err != nil {
		return // refused (a panic aborts the transaction)
	}
	zzvp.Reach("gate-passed")
	zzvp.Assert(zzvp.And(hasIn, ti.IsPriceActive, hasOut, to.IsPriceActive), "both-prices-present-and-active")
	e18 := zzvp.Pow10(18)
	X := zzvp.ZI(in).Mul(zzvp.ZU(ti.Twa)).Mul(zzvp.ZN(dO))
	Y := zzvp.ZI(out).Mul(zzvp.ZU(to.Twa)).Mul(zzvp.ZN(dI))
	dd := zzvp.ZN(dI).Mul(zzvp.ZN(dO))
	L := zzvp.ZD(ltv)
	// (Y/dd - u) <= (L/1e18 + u) * (X/dd + u), u = 1e-18, cleared of denominators
	zzvp.Assert(L.Add(zzvp.ZN(1)).Mul(X.Mul(e18).Add(dd)).GTE(Y.Mul(e18).Sub(dd).Mul(e18)), "debt-value<=collateral-value*ltv+rounding")
}

// Lend (a new position): the position is created with everything available to borrow, the published total lent and the
// pool's custody grow by the lent amount, receipt tokens for exactly that amount are minted to the lender.
func VP_C08_Lend() {
	// "does the lender already have a position for this asset" walks a whole table: contract stubs (any answer); the
	// obligation below is about the answer "no" (a fresh position), recognised by the id counter having moved
	k, ctx := vpLendWorldWith("HasLendForAddressByAsset", "GetLendIDForAssetIDPoolID")
	var ak assetkeeper.Keeper
	zzvp.Wire(&ak)
	msg := types.MsgLend{Lender: zzvp.AnyString(), AssetId: zzvp.AnyUint64(), Amount: vpAnyCoin(), PoolId: zzvp.AnyUint64(), AppId: zzvp.AnyUint64()}
	zzvp.Assume(msg.ValidateBasic() == nil)
	pool, _ := k.GetPool(ctx, msg.PoolId)
	stats0, _ := k.GetAssetStatsByPoolIDAndAssetID(ctx, msg.PoolId, msg.AssetId)
	zzvp.Assume(stats0.PoolID == msg.PoolId && stats0.AssetID == msg.AssetId)
	counter := k.GetUserLendIDCounter(ctx)
	zzvp.Assume(counter < 1<<63)
	vpNotAModule(msg.Lender, pool.ModuleName)
	vpReceiptTokenIsAnotherDenom(k, ak, ctx, msg.AssetId)
	rates, _ := k.GetAssetRatesParams(ctx, msg.AssetId)
	cAsset, _ := ak.GetAsset(ctx, rates.CAssetID)
	lender, _ := sdk.AccAddressFromBech32(msg.Lender)
	zzvp.Mark()
	_, err := NewMsgServerImpl(k).Lend(sdk.WrapSDKContext(ctx), &msg)
	if err != nil {
		return
	}
	if k.GetUserLendIDCounter(ctx) == counter {
		return // an existing position was topped up: VP_C08_Deposit
	}
	zzvp.Reach("lend-succeeded")
	zzvp.Assert(k.GetUserLendIDCounter(ctx) == counter+1, "id-counter-moves-by-one")
	l1, found := k.GetLend(ctx, counter+1)
	zzvp.Assert(zzvp.And(found, l1.Owner == msg.Lender, l1.AssetID == msg.AssetId, l1.PoolID == msg.PoolId, l1.AppID == msg.AppId), "new-position-stored-under-the-next-id")
	zzvp.Assert(l1.AvailableToBorrow.Equal(msg.Amount.Amount) && l1.AmountIn.Amount.Equal(msg.Amount.Amount), "everything-lent-is-available-to-borrow")
	stats1, _ := k.GetAssetStatsByPoolIDAndAssetID(ctx, msg.PoolId, msg.AssetId)
	zzvp.Assert(stats1.TotalLend.Sub(stats0.TotalLend).Equal(msg.Amount.Amount), "published-lent-moves-with-the-position")
	zzvp.Assert(stats1.TotalBorrowed.Equal(stats0.TotalBorrowed) && stats1.TotalStableBorrowed.Equal(stats0.TotalStableBorrowed), "published-borrowed-untouched-by-a-lend")
	zzvp.Assert(zzvp.BalanceDelta(zzvp.ModuleAddr(pool.ModuleName), msg.Amount.Denom).Equal(msg.Amount.Amount), "pool-receives-exactly-the-lent-amount")
	zzvp.Assert(zzvp.BalanceDelta(lender, cAsset.Denom).Equal(msg.Amount.Amount) && zzvp.SupplyDelta(cAsset.Denom).Equal(msg.Amount.Amount), "receipt-tokens-for-exactly-the-lent-amount")
}

// CloseLend: only a position without open borrows can be closed; it pays out exactly what is available to borrow, the
// published total falls by the same amount and the position is gone.
func VP_C08_CloseLend() {
	k, ctx := vpLendWorldWith()
	var ak assetkeeper.Keeper
	zzvp.Wire(&ak)
	msg := types.MsgCloseLend{Lender: zzvp.AnyString(), LendId: zzvp.AnyUint64()}
	zzvp.Assume(msg.ValidateBasic() == nil)
	l, _ := k.GetLend(ctx, msg.LendId)
	zzvp.Assume(l.ID == msg.LendId)
	pool, _ := k.GetPool(ctx, l.PoolID)
	stats0, _ := k.GetAssetStatsByPoolIDAndAssetID(ctx, l.PoolID, l.AssetID)
	zzvp.Assume(stats0.PoolID == l.PoolID && stats0.AssetID == l.AssetID)
	mapping, _ := k.GetUserLendBorrowMapping(ctx, l.Owner, msg.LendId)
	vpNotAModule(msg.Lender, pool.ModuleName)
	vpReceiptTokenIsAnotherDenom(k, ak, ctx, l.AssetID)
	asset, _ := ak.GetAsset(ctx, l.AssetID)
	zzvp.Assume(l.AmountIn.Denom == asset.Denom) // record coherence: a position is denominated in its asset
	zzvp.Mark()
	_, err := NewMsgServerImpl(k).CloseLend(sdk.WrapSDKContext(ctx), &msg)
	if err != nil {
		return
	}
	zzvp.Reach("close-lend-succeeded")
	zzvp.Assert(len(mapping.BorrowId) == 0, "a-position-with-open-borrows-is-not-closed")
	_, still := k.GetLend(ctx, msg.LendId)
	zzvp.Assert(!still, "closed-position-is-removed")
	stats1, _ := k.GetAssetStatsByPoolIDAndAssetID(ctx, l.PoolID, l.AssetID)
	zzvp.Assert(stats1.TotalLend.Sub(stats0.TotalLend).Equal(l.AvailableToBorrow.Neg()), "published-lent-falls-by-what-was-available")
	zzvp.Assert(zzvp.BalanceDelta(zzvp.ModuleAddr(pool.ModuleName), l.AmountIn.Denom).Equal(l.AvailableToBorrow.Neg()), "pool-pays-exactly-what-was-available")
}

// BorrowAlternate (lend and borrow in one message), fresh-position branch: the lend half opens the position exactly like
// MsgLend - everything lent is available to borrow, the published total lent moves by the LENT amount, the pool receives
// it and the receipt tokens are minted for it - and the borrow half is asked exactly once for the new position, the
// receipt coin of the lent amount and the requested loan. The borrow half itself (BorrowAsset) is a contract stub here:
// it writes nothing in this obligation, so the identities of the lend half are exact.
func VP_C08_BorrowAlternateOpensTheLendLikeMsgLend() {
	k, ctx := vpLendWorldWith("HasLendForAddressByAsset", "GetLendIDForAssetIDPoolID", "BorrowAsset", "DepositAsset")
	var ak assetkeeper.Keeper
	zzvp.Wire(&ak)
	msg := types.MsgBorrowAlternate{Lender: zzvp.AnyString(), AssetId: zzvp.AnyUint64(), PoolId: zzvp.AnyUint64(), AmountIn: vpAnyCoin(), PairId: zzvp.AnyUint64(),
		IsStableBorrow: zzvp.AnyBool(), AmountOut: vpAnyCoin(), AppId: zzvp.AnyUint64()}
	zzvp.Assume(msg.ValidateBasic() == nil)
	pool, _ := k.GetPool(ctx, msg.PoolId)
	stats0, _ := k.GetAssetStatsByPoolIDAndAssetID(ctx, msg.PoolId, msg.AssetId)
	zzvp.Assume(stats0.PoolID == msg.PoolId && stats0.AssetID == msg.AssetId)
	counter := k.GetUserLendIDCounter(ctx)
	zzvp.Assume(counter < 1<<63)
	vpNotAModule(msg.Lender, pool.ModuleName)
	vpReceiptTokenIsAnotherDenom(k, ak, ctx, msg.AssetId)
	rates, _ := k.GetAssetRatesParams(ctx, msg.AssetId)
	cAsset, _ := ak.GetAsset(ctx, rates.CAssetID)
	lender, _ := sdk.AccAddressFromBech32(msg.Lender)
	zzvp.Mark()
	// the keeper function the message handler delegates to (the handler adds gas accounting and an event)
	err := k.BorrowAlternate(ctx, msg.Lender, msg.AssetId, msg.PoolId, msg.AmountIn, msg.PairId, msg.IsStableBorrow, msg.AmountOut, msg.AppId)
	if err != nil {
		return
	}
	if k.GetUserLendIDCounter(ctx) == counter {
		return // an existing position was topped up (DepositAsset + BorrowAsset): VP_C08_Deposit
	}
	zzvp.Reach("lend-and-borrow-succeeded")
	zzvp.Assert(k.GetUserLendIDCounter(ctx) == counter+1, "id-counter-moves-by-one")
	l1, found := k.GetLend(ctx, counter+1)
	zzvp.Assert(zzvp.And(found, l1.Owner == msg.Lender, l1.AssetID == msg.AssetId, l1.PoolID == msg.PoolId, l1.AppID == msg.AppId), "new-position-stored-under-the-next-id")
	zzvp.Assert(l1.AvailableToBorrow.Equal(msg.AmountIn.Amount) && l1.AmountIn.Amount.Equal(msg.AmountIn.Amount), "everything-lent-is-available-to-the-borrow-half")
	stats1, _ := k.GetAssetStatsByPoolIDAndAssetID(ctx, msg.PoolId, msg.AssetId)
	zzvp.Assert(stats1.TotalLend.Sub(stats0.TotalLend).Equal(msg.AmountIn.Amount), "published-lent-moves-by-the-lent-amount")
	zzvp.Assert(zzvp.BalanceDelta(zzvp.ModuleAddr(pool.ModuleName), msg.AmountIn.Denom).Equal(msg.AmountIn.Amount), "pool-receives-exactly-the-lent-amount")
	zzvp.Assert(zzvp.BalanceDelta(lender, cAsset.Denom).Equal(msg.AmountIn.Amount) && zzvp.SupplyDelta(cAsset.Denom).Equal(msg.AmountIn.Amount), "receipt-tokens-for-exactly-the-lent-amount")
	zzvp.Assert(zzvp.SpyCount(vpLK+"BorrowAsset") == 1, "borrow-half-asked-once")
	zzvp.Assert(zzvp.And(zzvp.SpyArgZ(vpLK+"BorrowAsset", 0, 3).Equal(zzvp.ZU(counter+1)), zzvp.SpyArgZ(vpLK+"BorrowAsset", 0, 4).Equal(zzvp.ZU(msg.PairId)),
		zzvp.SpyArgZ(vpLK+"BorrowAsset", 0, 6).Equal(zzvp.ZI(msg.AmountIn.Amount)), zzvp.SpyArgZ(vpLK+"BorrowAsset", 0, 7).Equal(zzvp.ZI(msg.AmountOut.Amount))),
		"borrow-half-gets-the-new-position-the-pair-the-receipt-amount-and-the-requested-loan")
}

// CloseBorrow: the published borrowed total of the borrow's kind (variable / stable) falls by exactly the closed
// principal and the other one is untouched - also when the close books accrued interest on the same statistics record -,
// the published total lent is untouched, the pledged collateral becomes available to borrow again on the lend position,
// and the borrow is gone.
func VP_C08_CloseBorrow() {
	k, ctx := vpLendWorldWith("UpdateReserveAmtFromRepayments", "UpdateReserveBalances")
	msg := types.MsgCloseBorrow{Borrower: zzvp.AnyString(), BorrowId: zzvp.AnyUint64()}
	zzvp.Assume(msg.ValidateBasic() == nil)
	b, _ := k.GetBorrow(ctx, msg.BorrowId)
	zzvp.Assume(b.ID == msg.BorrowId)
	zzvp.Assume(!b.InterestAccumulated.IsNegative() && !b.AmountOut.Amount.IsNegative() && !b.AmountIn.Amount.IsNegative())
	pair, _ := k.GetLendPair(ctx, b.PairID)
	stats0, _ := k.GetAssetStatsByPoolIDAndAssetID(ctx, pair.AssetOutPoolID, pair.AssetOut)
	zzvp.Assume(stats0.PoolID == pair.AssetOutPoolID && stats0.AssetID == pair.AssetOut)
	l0, _ := k.GetLend(ctx, b.LendingID)
	zzvp.Assume(l0.ID == b.LendingID)
	tr, _ := k.GetBorrowInterestTracker(ctx, msg.BorrowId)
	zzvp.Assume(!tr.ReservePoolInterest.IsNegative() && tr.ReservePoolInterest.LTE(b.InterestAccumulated))
	_, err := NewMsgServerImpl(k).CloseBorrow(sdk.WrapSDKContext(ctx), &msg)
	if err != nil {
		return
	}
	zzvp.Reach("close-borrow-succeeded")
	if b.InterestAccumulated.Sub(tr.ReservePoolInterest).TruncateInt().IsPositive() {
		zzvp.Reach("close-books-accrued-interest")
	}
	stats1, _ := k.GetAssetStatsByPoolIDAndAssetID(ctx, pair.AssetOutPoolID, pair.AssetOut)
	if b.IsStableBorrow {
		zzvp.Assert(stats1.TotalStableBorrowed.Sub(stats0.TotalStableBorrowed).Equal(b.AmountOut.Amount.Neg()) && stats1.TotalBorrowed.Equal(stats0.TotalBorrowed), "published-stable-borrowed-falls-by-the-closed-principal")
	} else {
		zzvp.Assert(stats1.TotalBorrowed.Sub(stats0.TotalBorrowed).Equal(b.AmountOut.Amount.Neg()) && stats1.TotalStableBorrowed.Equal(stats0.TotalStableBorrowed), "published-borrowed-falls-by-the-closed-principal")
	}
	zzvp.Assert(stats1.TotalLend.Equal(stats0.TotalLend), "published-lent-untouched-by-a-close")
	_, still := k.GetBorrow(ctx, msg.BorrowId)
	zzvp.Assert(!still, "closed-borrow-is-removed")
	l1, _ := k.GetLend(ctx, b.LendingID)
	zzvp.Assert(l1.AvailableToBorrow.Sub(l0.AvailableToBorrow).Equal(b.AmountIn.Amount), "pledged-collateral-becomes-available-again")
}
