//vp:target x/lend/keeper/zz_vp_c08_lend.go
//vp:load ./app
//go:build verif

package keeper

import (
	sdk "github.com/cosmos/cosmos-sdk/types"

	assetkeeper "github.com/comdex-official/comdex/x/asset/keeper"
	"github.com/comdex-official/comdex/x/lend/types"
	"github.com/comdex-official/comdex/zzvp"
)

// C08, books mode: one message from an arbitrary pre-state (lazily havocked store and bank). Interest accrual, rates
// and the oracle valuation are contract stubs (they write nothing here: accrual has its own obligations under C18);
// the bookkeeping (positions, published pool totals, coin movements) is the real code.
// Identity kept by every step: published TotalLend moves with the lend position's AvailableToBorrow (pledged
// collateral unchanged), published TotalBorrowed / TotalStableBorrowed move with the borrow position's principal.

const vpVerifyLTV = vpLK + "VerifyCollateralizationRatio"

// Draw: succeeds only if the loan-to-value gate was asked about THIS borrow's collateral, its debt after the draw
// (principal + accrued interest + new loan) and the pair's LTV (e-mode LTV for e-mode pairs) and agreed, and the pool
// holds the coins; the published total borrowed moves by exactly the drawn amount.
func VP_C08_Draw() {
	k, ctx := vpLendWorldWith()
	var ak assetkeeper.Keeper
	zzvp.Wire(&ak)
	msg := types.MsgDraw{Borrower: zzvp.AnyString(), BorrowId: zzvp.AnyUint64(), Amount: vpAnyCoin()}
	zzvp.Assume(msg.ValidateBasic() == nil)
	b, _ := k.GetBorrow(ctx, msg.BorrowId)
	zzvp.Assume(b.ID == msg.BorrowId)
	pair, _ := k.GetLendPair(ctx, b.PairID)
	pool, _ := k.GetPool(ctx, pair.AssetOutPoolID)
	assetOut, _ := ak.GetAsset(ctx, pair.AssetOut)
	rates, _ := k.GetAssetRatesParams(ctx, pair.AssetIn)
	stats0, _ := k.GetAssetStatsByPoolIDAndAssetID(ctx, pair.AssetOutPoolID, pair.AssetOut)
	zzvp.Assume(stats0.PoolID == pair.AssetOutPoolID && stats0.AssetID == pair.AssetOut) // stored under its own ids
	poolBal := zzvp.Balance(ctx, zzvp.ModuleAddr(pool.ModuleName), assetOut.Denom)
	zzvp.Mark()
	_, err := NewMsgServerImpl(k).Draw(sdk.WrapSDKContext(ctx), &msg)
	if err != nil {
		return
	}
	zzvp.Reach("draw-succeeded")
	zzvp.Assert(zzvp.SpyCount(vpVerifyLTV) == 1 && zzvp.SpyErrNil(vpVerifyLTV, 0), "loan-to-value-gate-asked-and-agreed")
	zzvp.Assert(zzvp.SpyArgZ(vpVerifyLTV, 0, 2).Equal(zzvp.ZI(b.AmountIn.Amount)), "gate-sees-the-borrows-collateral")
	debt := zzvp.ZI(b.AmountOut.Amount).Add(zzvp.ZI(b.InterestAccumulated.TruncateInt())).Add(zzvp.ZI(msg.Amount.Amount))
	zzvp.Assert(zzvp.SpyArgZ(vpVerifyLTV, 0, 4).Equal(debt), "gate-sees-principal-plus-interest-plus-new-loan")
	ltv := rates.Ltv
	if pair.IsEModeEnabled {
		ltv = rates.ELtv
	}
	zzvp.Assert(zzvp.SpyArgZ(vpVerifyLTV, 0, 6).Equal(zzvp.ZD(ltv)), "gate-uses-the-pairs-loan-to-value-ratio")
	zzvp.Assert(msg.Amount.Amount.LTE(poolBal), "pool-holds-the-lent-out-coins")
	b1, _ := k.GetBorrow(ctx, msg.BorrowId)
	stats1, _ := k.GetAssetStatsByPoolIDAndAssetID(ctx, pair.AssetOutPoolID, pair.AssetOut)
	zzvp.Assert(b1.AmountOut.Amount.Sub(b.AmountOut.Amount).Equal(msg.Amount.Amount), "principal-grows-by-the-drawn-amount")
	if b.IsStableBorrow {
		zzvp.Assert(stats1.TotalStableBorrowed.Sub(stats0.TotalStableBorrowed).Equal(msg.Amount.Amount) && stats1.TotalBorrowed.Equal(stats0.TotalBorrowed), "published-stable-borrowed-moves-with-the-principal")
	} else {
		zzvp.Assert(stats1.TotalBorrowed.Sub(stats0.TotalBorrowed).Equal(msg.Amount.Amount) && stats1.TotalStableBorrowed.Equal(stats0.TotalStableBorrowed), "published-borrowed-moves-with-the-principal")
	}
	zzvp.Assert(stats1.TotalLend.Equal(stats0.TotalLend), "published-lent-untouched-by-a-draw")
	zzvp.Assert(zzvp.BalanceDelta(zzvp.ModuleAddr(pool.ModuleName), assetOut.Denom).Equal(msg.Amount.Amount.Neg()), "pool-pays-exactly-the-drawn-amount")
}

// Repay (partial): the published total borrowed moves by exactly the change of the borrow's principal, whatever part of
// the payment goes to interest and to the reserve.
func VP_C08_Repay() {
	k, ctx := vpLendWorldWith("UpdateReserveAmtFromRepayments")
	msg := types.MsgRepay{Borrower: zzvp.AnyString(), BorrowId: zzvp.AnyUint64(), Amount: vpAnyCoin()}
	zzvp.Assume(msg.ValidateBasic() == nil)
	b, _ := k.GetBorrow(ctx, msg.BorrowId)
	zzvp.Assume(b.ID == msg.BorrowId)
	// the full repayment is CloseBorrow's obligation
	zzvp.Assume(!msg.Amount.Amount.Equal(b.AmountOut.Amount.Add(b.InterestAccumulated.TruncateInt())))
	zzvp.Assume(!b.InterestAccumulated.IsNegative() && !b.AmountOut.Amount.IsNegative())
	pair, _ := k.GetLendPair(ctx, b.PairID)
	stats0, _ := k.GetAssetStatsByPoolIDAndAssetID(ctx, pair.AssetOutPoolID, pair.AssetOut)
	zzvp.Assume(stats0.PoolID == pair.AssetOutPoolID && stats0.AssetID == pair.AssetOut)
	_, err := NewMsgServerImpl(k).Repay(sdk.WrapSDKContext(ctx), &msg)
	if err != nil {
		return
	}
	zzvp.Reach("repay-succeeded")
	b1, _ := k.GetBorrow(ctx, msg.BorrowId)
	stats1, _ := k.GetAssetStatsByPoolIDAndAssetID(ctx, pair.AssetOutPoolID, pair.AssetOut)
	dPrincipal := b1.AmountOut.Amount.Sub(b.AmountOut.Amount)
	zzvp.Assert(!dPrincipal.IsPositive(), "a-repayment-never-increases-the-principal")
	zzvp.Assert(!b1.AmountOut.Amount.IsNegative() && !b1.InterestAccumulated.IsNegative(), "principal-and-interest-stay-non-negative")
	if b.IsStableBorrow {
		zzvp.Assert(stats1.TotalStableBorrowed.Sub(stats0.TotalStableBorrowed).Equal(dPrincipal) && stats1.TotalBorrowed.Equal(stats0.TotalBorrowed), "published-stable-borrowed-moves-with-the-principal")
	} else {
		zzvp.Assert(stats1.TotalBorrowed.Sub(stats0.TotalBorrowed).Equal(dPrincipal) && stats1.TotalStableBorrowed.Equal(stats0.TotalStableBorrowed), "published-borrowed-moves-with-the-principal")
	}
	zzvp.Assert(stats1.TotalLend.Equal(stats0.TotalLend), "published-lent-untouched-by-a-repayment")
	// debt paid down by exactly the payment: principal + interest (interest keeps its fraction)
	paid := zzvp.ZI(b.AmountOut.Amount).Mul(zzvp.Pow10(18)).Add(zzvp.ZD(b.InterestAccumulated)).Sub(zzvp.ZI(b1.AmountOut.Amount).Mul(zzvp.Pow10(18))).Sub(zzvp.ZD(b1.InterestAccumulated))
	zzvp.Assert(paid.Equal(zzvp.ZI(msg.Amount.Amount).Mul(zzvp.Pow10(18))), "debt-falls-by-exactly-the-payment")
}

// Withdraw (partial): never more than what is still available to borrow (pledged collateral is not released); the
// published total lent moves with the position.
func VP_C08_Withdraw() {
	k, ctx := vpLendWorldWith()
	var ak assetkeeper.Keeper
	zzvp.Wire(&ak)
	msg := types.MsgWithdraw{Lender: zzvp.AnyString(), LendId: zzvp.AnyUint64(), Amount: vpAnyCoin()}
	zzvp.Assume(msg.ValidateBasic() == nil)
	l, _ := k.GetLend(ctx, msg.LendId)
	zzvp.Assume(l.ID == msg.LendId)
	// withdrawing everything closes the position: CloseLend's obligation
	zzvp.Assume(!zzvp.And(msg.Amount.Amount.Equal(l.AvailableToBorrow), l.AvailableToBorrow.GTE(l.AmountIn.Amount)))
	pool, _ := k.GetPool(ctx, l.PoolID)
	stats0, _ := k.GetAssetStatsByPoolIDAndAssetID(ctx, l.PoolID, l.AssetID)
	zzvp.Assume(stats0.PoolID == l.PoolID && stats0.AssetID == l.AssetID)
	zzvp.Mark()
	_, err := NewMsgServerImpl(k).Withdraw(sdk.WrapSDKContext(ctx), &msg)
	if err != nil {
		return
	}
	zzvp.Reach("withdraw-succeeded")
	zzvp.Assert(msg.Amount.Amount.LTE(l.AvailableToBorrow), "pledged-collateral-is-never-released")
	l1, _ := k.GetLend(ctx, msg.LendId)
	stats1, _ := k.GetAssetStatsByPoolIDAndAssetID(ctx, l.PoolID, l.AssetID)
	zzvp.Assert(l1.AvailableToBorrow.Sub(l.AvailableToBorrow).Equal(msg.Amount.Amount.Neg()), "available-to-borrow-falls-by-the-withdrawn-amount")
	zzvp.Assert(stats1.TotalLend.Sub(stats0.TotalLend).Equal(msg.Amount.Amount.Neg()), "published-lent-moves-with-the-position")
	zzvp.Assert(stats1.TotalBorrowed.Equal(stats0.TotalBorrowed) && stats1.TotalStableBorrowed.Equal(stats0.TotalStableBorrowed), "published-borrowed-untouched-by-a-withdrawal")
	zzvp.Assert(zzvp.BalanceDelta(zzvp.ModuleAddr(pool.ModuleName), msg.Amount.Denom).Equal(msg.Amount.Amount.Neg()), "pool-pays-exactly-the-withdrawn-amount")
}

// Deposit into a lend position: position, published total and pool custody grow by the deposit.
func VP_C08_Deposit() {
	k, ctx := vpLendWorldWith()
	msg := types.MsgDeposit{Lender: zzvp.AnyString(), LendId: zzvp.AnyUint64(), Amount: vpAnyCoin()}
	zzvp.Assume(msg.ValidateBasic() == nil)
	l, _ := k.GetLend(ctx, msg.LendId)
	zzvp.Assume(l.ID == msg.LendId)
	pool, _ := k.GetPool(ctx, l.PoolID)
	stats0, _ := k.GetAssetStatsByPoolIDAndAssetID(ctx, l.PoolID, l.AssetID)
	zzvp.Assume(stats0.PoolID == l.PoolID && stats0.AssetID == l.AssetID)
	zzvp.Mark()
	_, err := NewMsgServerImpl(k).Deposit(sdk.WrapSDKContext(ctx), &msg)
	if err != nil {
		return
	}
	zzvp.Reach("deposit-succeeded")
	l1, _ := k.GetLend(ctx, msg.LendId)
	stats1, _ := k.GetAssetStatsByPoolIDAndAssetID(ctx, l.PoolID, l.AssetID)
	zzvp.Assert(l1.AvailableToBorrow.Sub(l.AvailableToBorrow).Equal(msg.Amount.Amount) && l1.AmountIn.Amount.Sub(l.AmountIn.Amount).Equal(msg.Amount.Amount), "position-grows-by-the-deposit")
	zzvp.Assert(stats1.TotalLend.Sub(stats0.TotalLend).Equal(msg.Amount.Amount), "published-lent-moves-with-the-position")
	zzvp.Assert(stats1.TotalBorrowed.Equal(stats0.TotalBorrowed) && stats1.TotalStableBorrowed.Equal(stats0.TotalStableBorrowed), "published-borrowed-untouched-by-a-deposit")
	zzvp.Assert(zzvp.BalanceDelta(zzvp.ModuleAddr(pool.ModuleName), msg.Amount.Denom).Equal(msg.Amount.Amount), "pool-receives-exactly-the-deposit")
}
