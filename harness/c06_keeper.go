//vp:target x/liquidity/keeper/zz_vp_c06.go
//vp:load ./app
//go:build verif

package keeper

import (
	sdkmath "cosmossdk.io/math"
	sdk "github.com/cosmos/cosmos-sdk/types"

	"github.com/comdex-official/comdex/x/liquidity/types"
	"github.com/comdex-official/comdex/zzvp"
)

const (
	vpAmmWithdraw = "github.com/comdex-official/comdex/x/liquidity/amm.Withdraw"
	vpPoolBal     = "(github.com/comdex-official/comdex/x/liquidity/keeper.Keeper).getPoolBalances"
)

// C06 (execution of a queued withdrawal, plumbing around amm.Withdraw): the share formula is asked with THIS pool's
// reserves, its pool-coin supply, the request's pool coin and the app's configured WITHDRAW fee rate; the withdrawer is
// paid exactly what the formula returns, out of the pool's reserve, and exactly the request's pool coin is burnt. The
// formula itself (amm.Withdraw, obligations VP_C06_Withdraw*) and the reserve read are spy stubs (any values).
func VP_C06_ExecuteWithdrawRequestPlumbing() {
	zzvp.Stub(vpAmmWithdraw)
	zzvp.Stub(vpPoolBal)
	var k Keeper
	zzvp.Wire(&k)
	ctx := zzvp.Ctx()
	var req types.WithdrawRequest
	req.Id, req.PoolId, req.AppId = zzvp.AnyUint64(), zzvp.AnyUint64(), zzvp.AnyUint64()
	req.Withdrawer = zzvp.AnyString()
	req.Status = types.RequestStatusNotExecuted
	amt := zzvp.AnySdkInt()
	zzvp.Assume(amt.IsPositive() && amt.LTE(sdkmath.NewIntWithDecimal(1, 40)))
	pool, _ := k.GetPool(ctx, req.AppId, req.PoolId)
	zzvp.Assume(pool.Id == req.PoolId && pool.AppId == req.AppId)
	zzvp.Assume(pool.Type == types.PoolTypeBasic) // ranged pools (iterative square root in their constructor) are outside this obligation
	req.PoolCoin = sdk.Coin{Denom: pool.PoolCoinDenom, Amount: amt}
	pair, _ := k.GetPair(ctx, req.AppId, pool.PairId)
	zzvp.Assume(pair.QuoteCoinDenom != pair.BaseCoinDenom && pair.QuoteCoinDenom != pool.PoolCoinDenom && pair.BaseCoinDenom != pool.PoolCoinDenom)
	params, _ := k.GetGenericLiquidityParams(ctx, req.AppId)
	zzvp.Assume(params.AppId == req.AppId)
	user := vpUser(req.Withdrawer, types.GlobalEscrowAddress, zzvp.ModuleAddr(types.ModuleName))
	reserve, errR := sdk.AccAddressFromBech32(pool.ReserveAddress)
	zzvp.Assume(errR == nil && !reserve.Equals(user) && !reserve.Equals(types.GlobalEscrowAddress) && !reserve.Equals(zzvp.ModuleAddr(types.ModuleName)))
	// (the bulk-send helper groups transfers by the bech32 strings of sender and receiver: different accounts have
	// different strings)
	zzvp.Assume(pool.ReserveAddress != types.GlobalEscrowAddress.String() && req.Withdrawer != zzvp.ModuleAddr(types.ModuleName).String())
	supply := zzvp.Supply(pool.PoolCoinDenom)
	zzvp.Mark()
	err := k.ExecuteWithdrawRequest(ctx, req)
	zzvp.Reach("request-processed")
	if zzvp.SpyCount(vpAmmWithdraw) == 0 {
		return
	}
	zzvp.Reach("share-formula-asked")
	zzvp.Assert(zzvp.SpyCount(vpAmmWithdraw) == 1 && zzvp.SpyCount(vpPoolBal) == 1, "formula-asked-once")
	zzvp.Assert(zzvp.SpyArgZ(vpAmmWithdraw, 0, 0).Equal(zzvp.SpyResZ(vpPoolBal, 0, 0)) && zzvp.SpyArgZ(vpAmmWithdraw, 0, 1).Equal(zzvp.SpyResZ(vpPoolBal, 0, 1)), "formula-sees-this-pools-reserves")
	zzvp.Assert(zzvp.SpyArgZ(vpAmmWithdraw, 0, 2).Equal(zzvp.ZI(supply)), "formula-sees-the-pool-coin-supply")
	zzvp.Assert(zzvp.SpyArgZ(vpAmmWithdraw, 0, 3).Equal(zzvp.ZI(amt)), "formula-sees-the-requests-pool-coin")
	zzvp.Assert(zzvp.SpyArgZ(vpAmmWithdraw, 0, 4).Equal(zzvp.ZD(params.WithdrawFeeRate)), "formula-uses-the-configured-withdraw-fee-rate")
	x, y := zzvp.SpyResZ(vpAmmWithdraw, 0, 0), zzvp.SpyResZ(vpAmmWithdraw, 0, 1)
	post, found := k.GetWithdrawRequest(ctx, req.AppId, req.PoolId, req.Id)
	if err == nil && found && post.Status == types.RequestStatusSucceeded {
		zzvp.Reach("withdrawal-executed")
		zzvp.Assert(zzvp.ZI(zzvp.BalanceDelta(user, pair.QuoteCoinDenom)).Equal(x) && zzvp.ZI(zzvp.BalanceDelta(user, pair.BaseCoinDenom)).Equal(y), "withdrawer-receives-exactly-the-formulas-amounts")
		zzvp.Assert(zzvp.ZI(zzvp.BalanceDelta(reserve, pair.QuoteCoinDenom)).Equal(x.Neg()) && zzvp.ZI(zzvp.BalanceDelta(reserve, pair.BaseCoinDenom)).Equal(y.Neg()), "paid-out-of-this-pools-reserve")
		zzvp.Assert(zzvp.SupplyDelta(pool.PoolCoinDenom).Equal(amt.Neg()), "exactly-the-requests-pool-coin-is-burnt")
	}
}
