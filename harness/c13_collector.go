//vp:target x/collector/zz_vp_c13.go
//vp:load ./app
//go:build verif

package collector

import (
	sdk "github.com/cosmos/cosmos-sdk/types"

	assetkeeper "github.com/comdex-official/comdex/x/asset/keeper"
	assettypes "github.com/comdex-official/comdex/x/asset/types"
	"github.com/comdex-official/comdex/x/collector/keeper"
	"github.com/comdex-official/comdex/x/collector/types"
	lockerkeeper "github.com/comdex-official/comdex/x/locker/keeper"
	lockertypes "github.com/comdex-official/comdex/x/locker/types"
	"github.com/comdex-official/comdex/zzvp"
)

// C13 (collector pays locker savings when the saving rate changes): whatever happens to one locker - paid, skipped
// because the app's recorded net fees do not cover the reward, or failing later - the collector's custody moves by
// exactly what its net-fee record moves, the locker module receives exactly what the locker is credited, and the
// locker tables move together. Closed world: one asset, one locker in the lookup table, optional net-fee record; the
// reward arithmetic is a contract stub (any reward).
func VP_C13_LockerSavingsPaidOnRateChangeKeepBooks() {
	zzvp.Stub("(github.com/comdex-official/comdex/x/rewards/keeper.Keeper).CalculationOfRewards")
	var k keeper.Keeper
	zzvp.Wire(&k)
	var lk lockerkeeper.Keeper
	zzvp.Wire(&lk)
	var ak assetkeeper.Keeper
	zzvp.Wire(&ak)
	ctx := zzvp.ClosedCtx()
	const app, asset = 1, 2
	ak.SetAsset(ctx, assettypes.Asset{Id: asset, Name: "A", Denom: "uasset", Decimals: sdk.NewInt(1000000)})
	var l lockertypes.Locker
	zzvp.AnyOf(&l)
	l.LockerId, l.AppId, l.AssetDepositId = 7, app, asset
	zzvp.Assume(!l.NetBalance.IsNegative() && !l.ReturnsAccumulated.IsNegative())
	lk.SetLocker(ctx, l)
	deposited := zzvp.AnySdkInt()
	zzvp.Assume(deposited.GTE(l.NetBalance))
	lk.SetLockerLookupTable(ctx, lockertypes.LockerLookupTableData{AppId: app, AssetId: asset, LockerIds: []uint64{7}, DepositedAmount: deposited})
	hasFees := zzvp.AnyBool()
	fees := zzvp.AnySdkInt()
	if hasFees {
		zzvp.Assume(!fees.IsNegative())
		_ = k.SetNetFeeCollectedData(ctx, app, asset, fees)
	} else {
		fees = sdk.ZeroInt()
	}
	collector, lockerMod := zzvp.ModuleAddr(types.ModuleName), zzvp.ModuleAddr(lockertypes.ModuleName)
	// the invariant this step must keep (and may rely on): the collector's custody covers the recorded net fees
	zzvp.Assume(zzvp.Balance(ctx, collector, "uasset").GTE(fees))
	zzvp.Mark()
	k.LockerIterateRewards(ctx, zzvp.AnyDec(), zzvp.AnyInt64(), zzvp.AnyInt64(), app, asset, zzvp.AnyBool())
	zzvp.Reach("savings-pass-done")
	feesAfter := sdk.ZeroInt()
	if d, ok := k.GetNetFeeCollectedData(ctx, app, asset); ok {
		feesAfter = d.NetFeesCollected
	}
	dCollector := zzvp.BalanceDelta(collector, "uasset")
	zzvp.Assert(dCollector.Equal(feesAfter.Sub(fees)), "net-fee-record-delta=collector-custody-delta")
	l2, _ := lk.GetLocker(ctx, 7)
	credited := l2.NetBalance.Sub(l.NetBalance)
	zzvp.Assert(zzvp.BalanceDelta(lockerMod, "uasset").Equal(credited), "locker-custody-delta=locker-credit")
	zzvp.Assert(zzvp.BalanceDelta(lockerMod, "uasset").Equal(dCollector.Neg()), "what-leaves-the-collector-reaches-the-locker-module")
	t2, _ := lk.GetLockerLookupTable(ctx, app, asset)
	zzvp.Assert(t2.DepositedAmount.Sub(deposited).Equal(credited), "lookup-total-moves-with-the-locker")
	if !credited.IsZero() {
		zzvp.Reach("savings-paid")
	}
}
