//vp:target app/wasm/zz_vp_c12.go
//vp:load ./app
//go:build verif

package wasm

import (
	sdk "github.com/cosmos/cosmos-sdk/types"

	"github.com/comdex-official/comdex/app/wasm/bindings"
	"github.com/comdex-official/comdex/zzvp"
)

// C12 (custom contract-to-chain messages): on the main network and on the test network every one of the twenty custom
// message handlers refuses a sender contract that is not one of the network's designated governance contracts, before
// touching any keeper. Contrapositive form: chain id is one of the two networks (Choose), the sender contract is ANY
// address whose bech32 form is none of that network's two governance contracts, the message body is arbitrary (it is written by the
// sender, so it may name any address); the handler must return an error. The privileged action behind each guard is a spy stub.
var vpWasmActions = []string{"MsgAddAuctionParams", "MsgAddESMTriggerParams", "MsgAddEmissionPoolRewards", "MsgAddEmissionRewards", "MsgAddExtendedPairsVault",
	"MsgBurnGovTokensForApp", "MsgFoundationEmission", "MsgGetSurplusFund", "MsgRebaseMint", "MsgRemoveWhitelistAppIDLiquidation", "MsgRemoveWhitelistAppIDVaultInterest",
	"MsgRemoveWhitelistAssetLocker", "MsgSetAuctionMappingForApp", "MsgSetCollectorLookupTable", "MsgUpdateCollectorLookupTable", "MsgUpdatePairsVault",
	"MsgWhitelistAppIDLiquidation", "WhiteListAsset", "WhitelistAppIDLockerRewards", "WhitelistAppIDVaultInterest"}

func vpWasmGuard(call func(m *CustomMessenger, ctx sdk.Context, contract sdk.AccAddress) error) {
	// the privileged action behind the guard is a spy stub (any outcome): reaching it at all is the violation
	acted := 0
	for _, a := range vpWasmActions {
		zzvp.Stub("github.com/comdex-official/comdex/app/wasm." + a)
	}
	ctx := zzvp.Ctx()
	contract := zzvp.AnyAddr()
	if zzvp.Choose(2) == 0 {
		zzvp.Assume(ctx.ChainID() == "comdex-1")
		zzvp.Assume(contract.String() != comdex1[0] && contract.String() != comdex1[1])
	} else {
		zzvp.Assume(ctx.ChainID() == "comdex-test3")
		zzvp.Assume(contract.String() != testnet3[0] && contract.String() != testnet3[1])
	}
	err := call(&CustomMessenger{}, ctx, contract)
	zzvp.Reach("handler-returned")
	for _, a := range vpWasmActions {
		acted += zzvp.SpyCount("github.com/comdex-official/comdex/app/wasm." + a)
	}
	zzvp.Assert(acted == 0, "the-privileged-action-is-not-reached")
	zzvp.Assert(err != nil, "a-contract-that-is-not-a-governance-contract-is-refused")
}

func VP_C12_WasmWhitelistAssetLocker() {
	vpWasmGuard(func(m *CustomMessenger, ctx sdk.Context, c sdk.AccAddress) error {
		var body bindings.MsgWhiteListAssetLocker
		zzvp.AnyOf(&body) // whatever the contract wrote into the message, including other contracts' addresses
		_, _, err := m.whitelistAssetLocker(ctx, c, &body)
		return err
	})
}

func VP_C12_WasmWhitelistAppIDLockerRewards() {
	vpWasmGuard(func(m *CustomMessenger, ctx sdk.Context, c sdk.AccAddress) error {
		var body bindings.MsgWhitelistAppIDLockerRewards
		zzvp.AnyOf(&body) // whatever the contract wrote into the message, including other contracts' addresses
		_, _, err := m.whitelistAppIDLockerRewards(ctx, c, &body)
		return err
	})
}

func VP_C12_WasmWhitelistAppIDVaultInterest() {
	vpWasmGuard(func(m *CustomMessenger, ctx sdk.Context, c sdk.AccAddress) error {
		var body bindings.MsgWhitelistAppIDVaultInterest
		zzvp.AnyOf(&body) // whatever the contract wrote into the message, including other contracts' addresses
		_, _, err := m.whitelistAppIDVaultInterest(ctx, c, &body)
		return err
	})
}

func VP_C12_WasmAddExtendedPairsVault() {
	vpWasmGuard(func(m *CustomMessenger, ctx sdk.Context, c sdk.AccAddress) error {
		var body bindings.MsgAddExtendedPairsVault
		zzvp.AnyOf(&body) // whatever the contract wrote into the message, including other contracts' addresses
		_, _, err := m.AddExtendedPairsVault(ctx, c, &body)
		return err
	})
}

func VP_C12_WasmSetCollectorLookupTable() {
	vpWasmGuard(func(m *CustomMessenger, ctx sdk.Context, c sdk.AccAddress) error {
		var body bindings.MsgSetCollectorLookupTable
		zzvp.AnyOf(&body) // whatever the contract wrote into the message, including other contracts' addresses
		_, _, err := m.SetCollectorLookupTable(ctx, c, &body)
		return err
	})
}

func VP_C12_WasmSetAuctionMappingForApp() {
	vpWasmGuard(func(m *CustomMessenger, ctx sdk.Context, c sdk.AccAddress) error {
		var body bindings.MsgSetAuctionMappingForApp
		zzvp.AnyOf(&body) // whatever the contract wrote into the message, including other contracts' addresses
		_, _, err := m.SetAuctionMappingForApp(ctx, c, &body)
		return err
	})
}

func VP_C12_WasmUpdatePairsVault() {
	vpWasmGuard(func(m *CustomMessenger, ctx sdk.Context, c sdk.AccAddress) error {
		var body bindings.MsgUpdatePairsVault
		zzvp.AnyOf(&body) // whatever the contract wrote into the message, including other contracts' addresses
		_, _, err := m.UpdatePairsVault(ctx, c, &body)
		return err
	})
}

func VP_C12_WasmUpdateCollectorLookupTable() {
	vpWasmGuard(func(m *CustomMessenger, ctx sdk.Context, c sdk.AccAddress) error {
		var body bindings.MsgUpdateCollectorLookupTable
		zzvp.AnyOf(&body) // whatever the contract wrote into the message, including other contracts' addresses
		_, _, err := m.UpdateCollectorLookupTable(ctx, c, &body)
		return err
	})
}

func VP_C12_WasmRemoveWhitelistAssetLocker() {
	vpWasmGuard(func(m *CustomMessenger, ctx sdk.Context, c sdk.AccAddress) error {
		var body bindings.MsgRemoveWhitelistAssetLocker
		zzvp.AnyOf(&body) // whatever the contract wrote into the message, including other contracts' addresses
		_, _, err := m.RemoveWhitelistAssetLocker(ctx, c, &body)
		return err
	})
}

func VP_C12_WasmRemoveWhitelistAppIDVaultInterest() {
	vpWasmGuard(func(m *CustomMessenger, ctx sdk.Context, c sdk.AccAddress) error {
		var body bindings.MsgRemoveWhitelistAppIDVaultInterest
		zzvp.AnyOf(&body) // whatever the contract wrote into the message, including other contracts' addresses
		_, _, err := m.RemoveWhitelistAppIDVaultInterest(ctx, c, &body)
		return err
	})
}

func VP_C12_WasmWhitelistAppIDLiquidation() {
	vpWasmGuard(func(m *CustomMessenger, ctx sdk.Context, c sdk.AccAddress) error {
		var body bindings.MsgWhitelistAppIDLiquidation
		zzvp.AnyOf(&body) // whatever the contract wrote into the message, including other contracts' addresses
		_, _, err := m.WhitelistAppIDLiquidation(ctx, c, &body)
		return err
	})
}

func VP_C12_WasmRemoveWhitelistAppIDLiquidation() {
	vpWasmGuard(func(m *CustomMessenger, ctx sdk.Context, c sdk.AccAddress) error {
		var body bindings.MsgRemoveWhitelistAppIDLiquidation
		zzvp.AnyOf(&body) // whatever the contract wrote into the message, including other contracts' addresses
		_, _, err := m.RemoveWhitelistAppIDLiquidation(ctx, c, &body)
		return err
	})
}

func VP_C12_WasmAddAuctionParams() {
	vpWasmGuard(func(m *CustomMessenger, ctx sdk.Context, c sdk.AccAddress) error {
		var body bindings.MsgAddAuctionParams
		zzvp.AnyOf(&body) // whatever the contract wrote into the message, including other contracts' addresses
		_, _, err := m.AddAuctionParams(ctx, c, &body)
		return err
	})
}

func VP_C12_WasmBurnGovTokensForApp() {
	vpWasmGuard(func(m *CustomMessenger, ctx sdk.Context, c sdk.AccAddress) error {
		var body bindings.MsgBurnGovTokensForApp
		zzvp.AnyOf(&body) // whatever the contract wrote into the message, including other contracts' addresses
		_, _, err := m.BurnGovTokensForApp(ctx, c, &body)
		return err
	})
}

func VP_C12_WasmAddESMTriggerParams() {
	vpWasmGuard(func(m *CustomMessenger, ctx sdk.Context, c sdk.AccAddress) error {
		var body bindings.MsgAddESMTriggerParams
		zzvp.AnyOf(&body) // whatever the contract wrote into the message, including other contracts' addresses
		_, _, err := m.AddESMTriggerParams(ctx, c, &body)
		return err
	})
}

func VP_C12_WasmExecuteAddEmissionRewards() {
	vpWasmGuard(func(m *CustomMessenger, ctx sdk.Context, c sdk.AccAddress) error {
		var body bindings.MsgEmissionRewards
		zzvp.AnyOf(&body) // whatever the contract wrote into the message, including other contracts' addresses
		_, _, err := m.ExecuteAddEmissionRewards(ctx, c, &body)
		return err
	})
}

func VP_C12_WasmExecuteAddEmissionPoolRewards() {
	vpWasmGuard(func(m *CustomMessenger, ctx sdk.Context, c sdk.AccAddress) error {
		var body bindings.MsgEmissionPoolRewards
		zzvp.AnyOf(&body) // whatever the contract wrote into the message, including other contracts' addresses
		_, _, err := m.ExecuteAddEmissionPoolRewards(ctx, c, &body)
		return err
	})
}

func VP_C12_WasmExecuteFoundationEmission() {
	vpWasmGuard(func(m *CustomMessenger, ctx sdk.Context, c sdk.AccAddress) error {
		var body bindings.MsgFoundationEmission
		zzvp.AnyOf(&body) // whatever the contract wrote into the message, including other contracts' addresses
		_, _, err := m.ExecuteFoundationEmission(ctx, c, &body)
		return err
	})
}

func VP_C12_WasmExecuteMsgRebaseMint() {
	vpWasmGuard(func(m *CustomMessenger, ctx sdk.Context, c sdk.AccAddress) error {
		var body bindings.MsgRebaseMint
		zzvp.AnyOf(&body) // whatever the contract wrote into the message, including other contracts' addresses
		_, _, err := m.ExecuteMsgRebaseMint(ctx, c, &body)
		return err
	})
}

func VP_C12_WasmExecuteMsgGetSurplusFund() {
	vpWasmGuard(func(m *CustomMessenger, ctx sdk.Context, c sdk.AccAddress) error {
		var body bindings.MsgGetSurplusFund
		zzvp.AnyOf(&body) // whatever the contract wrote into the message, including other contracts' addresses
		_, _, err := m.ExecuteMsgGetSurplusFund(ctx, c, &body)
		return err
	})
}

