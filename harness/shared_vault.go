//vp:target x/vault/keeper/zz_vp_shared.go
//vp:props C01 C02 C03 C12 C13 C14
//vp:load ./app
//go:build verif

package keeper

import (
	sdk "github.com/cosmos/cosmos-sdk/types"

	assettypes "github.com/comdex-official/comdex/x/asset/types"
	collectortypes "github.com/comdex-official/comdex/x/collector/types"
	esmtypes "github.com/comdex-official/comdex/x/esm/types"
	"github.com/comdex-official/comdex/x/vault/types"
	"github.com/comdex-official/comdex/zzvp"
)

// the engine names a module's KV store after the module directory
const vpStore = "vault"

// Handlers of the vault module (every method of msgServer).
const (
	vpHCreate = iota
	vpHDeposit
	vpHWithdraw
	vpHDraw
	vpHRepay
	vpHClose
	vpHDepositAndDraw
	vpHCreateStable
	vpHDepositStable
	vpHWithdrawStable
	vpHInterestCalc
	vpHCount
)

var vpHandlerNames = []string{"MsgCreate", "MsgDeposit", "MsgWithdraw", "MsgDraw", "MsgRepay", "MsgClose", "MsgDepositAndDraw",
	"MsgCreateStableMint", "MsgDepositStableMint", "MsgWithdrawStableMint", "MsgVaultInterestCalc"}

// vpVW: one symbolic world for a vault handler step. Everything not seeded here is lazily havocked (arbitrary).
type vpVW struct {
	k       Keeper
	ctx     sdk.Context
	from    string
	user    sdk.AccAddress
	appID   uint64
	extID   uint64
	vaultID uint64
	amount  sdk.Int
	amount2 sdk.Int
	app     assettypes.AppData
	ext     assettypes.ExtendedPairVault
	pair    assettypes.Pair
	in, out assettypes.Asset
	esm     esmtypes.ESMStatus
	esmOn   bool
	breaker bool
	// pre-state of the position the message names
	hasVault bool
	v        types.Vault
	hasSV    bool
	sv       types.StableMintVault
	m        types.AppExtendedPairVaultMappingData
	hasM     bool
	newID    uint64 // id a create would assign
	newSID   uint64
	lenPre   uint64
	err      error
}

// vpVaultWorld builds the pre-state. The facts assumed here beyond per-record validity are the module's relational
// invariants (harness/invariants_vault.md); each is asserted on the post-state by the C01 obligations of every writer.
//
// books=true (C01, C12, C14: which record / account / signer is touched): the decimal-arithmetic helpers are replaced by
// "any result" (an over-approximation, DESIGN.md 5.7). books=false (C02, C03): the real arithmetic is executed.
func vpVaultWorld(books bool) *vpVW {
	zzvp.Option("overflow-as-obligation")
	zzvp.Stub("(github.com/comdex-official/comdex/x/rewards/keeper.Keeper).VerifyAppIDInRewards")
	if books {
		zzvp.Stub("(github.com/comdex-official/comdex/x/vault/keeper.Keeper).VerifyCollaterlizationRatio")
		zzvp.Stub("(github.com/comdex-official/comdex/x/vault/keeper.Keeper).GetAmountOfOtherToken")
		zzvp.Stub("(github.com/comdex-official/comdex/x/rewards/keeper.Keeper).CalculationOfRewards")
	}
	w := &vpVW{}
	zzvp.Wire(&w.k)
	w.ctx = zzvp.Ctx()
	w.from = zzvp.AnyString()
	w.appID, w.extID, w.vaultID = zzvp.AnyUint64(), zzvp.AnyUint64(), zzvp.AnyUint64()
	w.amount, w.amount2 = zzvp.AnySdkInt(), zzvp.AnySdkInt()
	k, ctx := w.k, w.ctx
	// configuration records, stored under the key of their own id (key/record coherence)
	var okA, okE, okP, okI, okO bool
	w.app, okA = k.asset.GetApp(ctx, w.appID)
	w.ext, okE = k.asset.GetPairsVault(ctx, w.extID)
	// (every handler refuses at once when one of these is missing; the missing-record cases are part of C14)
	zzvp.Assume(okA && w.app.Id == w.appID)
	zzvp.Assume(okE && w.ext.Id == w.extID)
	w.pair, okP = k.asset.GetPair(ctx, w.ext.PairId)
	zzvp.Assume(okP && w.pair.Id == w.ext.PairId)
	w.in, okI = k.asset.GetAsset(ctx, w.pair.AssetIn)
	w.out, okO = k.asset.GetAsset(ctx, w.pair.AssetOut)
	zzvp.Assume(okI && w.in.Id == w.pair.AssetIn)
	zzvp.Assume(okO && w.out.Id == w.pair.AssetOut)
	// a pair trades two different assets and different assets have different denominations (asset module validation)
	zzvp.Assume(w.pair.AssetIn != w.pair.AssetOut && w.in.Denom != w.out.Denom)
	zzvp.Assume(w.in.Decimals.IsPositive() && w.out.Decimals.IsPositive())
	zzvp.Assume(!w.ext.DrawDownFee.IsNegative() && w.ext.DrawDownFee.LT(sdk.OneDec())) // asset module: 0 <= fee < 1
	zzvp.Assume(!w.ext.ClosingFee.IsNegative() && w.ext.ClosingFee.LTE(sdk.OneDec()))
	var okS bool
	w.esm, okS = k.esm.GetESMStatus(ctx, w.appID)
	w.esmOn = zzvp.And(okS, w.esm.Status)
	ks, _ := k.esm.GetKillSwitchData(ctx, w.appID)
	w.breaker = ks.BreakerEnable
	// the position
	w.v, w.hasVault = k.GetVault(ctx, w.vaultID)
	zzvp.Assume(zzvp.Implies(w.hasVault, w.v.Id == w.vaultID))
	w.m, w.hasM = k.GetAppExtendedPairVaultMappingData(ctx, w.appID, w.extID)
	zzvp.Assume(zzvp.Implies(w.hasM, zzvp.And(w.m.AppId == w.appID, w.m.ExtendedPairId == w.extID)))
	// invariant: an open vault's app is its product's app, and the product's published record exists
	zzvp.Assume(zzvp.Implies(zzvp.And(w.hasVault, w.v.ExtendedPairVaultID == w.extID), zzvp.And(w.v.AppId == w.ext.AppId, w.hasM)))
	w.sv, w.hasSV = k.GetStableMintVault(ctx, w.vaultID)
	zzvp.Assume(zzvp.Implies(w.hasSV, w.sv.Id == w.vaultID))
	zzvp.Assume(zzvp.Implies(zzvp.And(w.hasSV, w.sv.ExtendedPairVaultID == w.extID), zzvp.And(w.sv.AppId == w.ext.AppId, w.hasM)))
	w.newID = k.GetIDForVault(ctx) + 1
	w.newSID = k.GetIDForStableVault(ctx) + 1
	// invariant: ids are handed out by the counters, so nothing is stored yet under the next id
	_, nextTaken := k.GetVault(ctx, w.newID)
	_, nextSTaken := k.GetStableMintVault(ctx, w.newSID)
	zzvp.Assume(zzvp.And(!nextTaken, !nextSTaken))
	w.lenPre = k.GetLengthOfVault(ctx)
	// invariant: the counter counts the stored vaults, so it is at least 1 when a vault exists
	zzvp.Assume(zzvp.Implies(w.hasVault, w.lenPre >= 1))
	// the user's stable-mint reward entries are iterated: that table is closed and holds at most one seeded entry
	zzvp.ClosePrefix(vpStore, types.StableVaultRewardsKeyPrefix)
	if zzvp.AnyBool() {
		var r types.StableMintVaultRewards
		zzvp.AnyOf(&r)
		r.AppId, r.User = w.appID, w.from
		k.SetStableMintVaultRewards(ctx, r)
	}
	return w
}

// vpVaultCall runs handler h with a message built from the world's symbolic fields. The only precondition on the message
// contents is the message's own ValidateBasic (what the SDK enforces before a handler runs).
func (w *vpVW) vpVaultCall(h int) error {
	srv := NewMsgServer(w.k)
	c := sdk.WrapSDKContext(w.ctx)
	var err error
	switch h {
	case vpHCreate:
		m := &types.MsgCreateRequest{From: w.from, AppId: w.appID, ExtendedPairVaultId: w.extID, AmountIn: w.amount, AmountOut: w.amount2}
		zzvp.Assume(m.ValidateBasic() == nil)
		_, err = srv.MsgCreate(c, m)
	case vpHDeposit:
		m := &types.MsgDepositRequest{From: w.from, AppId: w.appID, ExtendedPairVaultId: w.extID, UserVaultId: w.vaultID, Amount: w.amount}
		zzvp.Assume(m.ValidateBasic() == nil)
		_, err = srv.MsgDeposit(c, m)
	case vpHWithdraw:
		m := &types.MsgWithdrawRequest{From: w.from, AppId: w.appID, ExtendedPairVaultId: w.extID, UserVaultId: w.vaultID, Amount: w.amount}
		zzvp.Assume(m.ValidateBasic() == nil)
		_, err = srv.MsgWithdraw(c, m)
	case vpHDraw:
		m := &types.MsgDrawRequest{From: w.from, AppId: w.appID, ExtendedPairVaultId: w.extID, UserVaultId: w.vaultID, Amount: w.amount}
		zzvp.Assume(m.ValidateBasic() == nil)
		_, err = srv.MsgDraw(c, m)
	case vpHRepay:
		m := &types.MsgRepayRequest{From: w.from, AppId: w.appID, ExtendedPairVaultId: w.extID, UserVaultId: w.vaultID, Amount: w.amount}
		zzvp.Assume(m.ValidateBasic() == nil)
		_, err = srv.MsgRepay(c, m)
	case vpHClose:
		m := &types.MsgCloseRequest{From: w.from, AppId: w.appID, ExtendedPairVaultId: w.extID, UserVaultId: w.vaultID}
		zzvp.Assume(m.ValidateBasic() == nil)
		_, err = srv.MsgClose(c, m)
	case vpHDepositAndDraw:
		m := &types.MsgDepositAndDrawRequest{From: w.from, AppId: w.appID, ExtendedPairVaultId: w.extID, UserVaultId: w.vaultID, Amount: w.amount}
		zzvp.Assume(m.ValidateBasic() == nil)
		_, err = srv.MsgDepositAndDraw(c, m)
	case vpHCreateStable:
		m := &types.MsgCreateStableMintRequest{From: w.from, AppId: w.appID, ExtendedPairVaultId: w.extID, Amount: w.amount}
		zzvp.Assume(m.ValidateBasic() == nil)
		_, err = srv.MsgCreateStableMint(c, m)
	case vpHDepositStable:
		m := &types.MsgDepositStableMintRequest{From: w.from, AppId: w.appID, ExtendedPairVaultId: w.extID, Amount: w.amount, StableVaultId: w.vaultID}
		zzvp.Assume(m.ValidateBasic() == nil)
		_, err = srv.MsgDepositStableMint(c, m)
	case vpHWithdrawStable:
		m := &types.MsgWithdrawStableMintRequest{From: w.from, AppId: w.appID, ExtendedPairVaultId: w.extID, Amount: w.amount, StableVaultId: w.vaultID}
		zzvp.Assume(m.ValidateBasic() == nil)
		_, err = srv.MsgWithdrawStableMint(c, m)
	case vpHInterestCalc:
		m := &types.MsgVaultInterestCalcRequest{From: w.from, AppId: w.appID, UserVaultId: w.vaultID}
		zzvp.Assume(m.ValidateBasic() == nil)
		_, err = srv.MsgVaultInterestCalc(c, m)
	}
	w.err = err
	return err
}

// vpPositionDeltas: change of the recorded collateral / principal of the position the handler worked on (branch-free).
func (w *vpVW) vpPositionDeltas(h int) (dIn, dOut zzvp.Z, created, deleted bool) {
	k, ctx := w.k, w.ctx
	zero := zzvp.ZN(0)
	switch h {
	case vpHCreate:
		post, found := k.GetVault(ctx, w.newID)
		return zzvp.IteZ(found, zzvp.ZI(post.AmountIn), zero), zzvp.IteZ(found, zzvp.ZI(post.AmountOut), zero), found, false
	case vpHCreateStable:
		post, found := k.GetStableMintVault(ctx, w.newSID)
		return zzvp.IteZ(found, zzvp.ZI(post.AmountIn), zero), zzvp.IteZ(found, zzvp.ZI(post.AmountOut), zero), false, false
	case vpHDepositStable, vpHWithdrawStable:
		post, found := k.GetStableMintVault(ctx, w.vaultID)
		pin, pout := zzvp.IteZ(w.hasSV, zzvp.ZI(w.sv.AmountIn), zero), zzvp.IteZ(w.hasSV, zzvp.ZI(w.sv.AmountOut), zero)
		return zzvp.IteZ(found, zzvp.ZI(post.AmountIn), zero).Sub(pin), zzvp.IteZ(found, zzvp.ZI(post.AmountOut), zero).Sub(pout), false, false
	default:
		post, found := k.GetVault(ctx, w.vaultID)
		pin, pout := zzvp.IteZ(w.hasVault, zzvp.ZI(w.v.AmountIn), zero), zzvp.IteZ(w.hasVault, zzvp.ZI(w.v.AmountOut), zero)
		return zzvp.IteZ(found, zzvp.ZI(post.AmountIn), zero).Sub(pin), zzvp.IteZ(found, zzvp.ZI(post.AmountOut), zero).Sub(pout), false, zzvp.And(w.hasVault, !found)
	}
}

func vpVaultModule() sdk.AccAddress     { return zzvp.ModuleAddr(types.ModuleName) }
func vpCollectorModule() sdk.AccAddress { return zzvp.ModuleAddr(collectortypes.ModuleName) }
