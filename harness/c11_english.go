//vp:target x/auctionsV2/keeper/zz_vp_c11e.go
//vp:load ./app
//go:build verif

package keeper

import (
	sdk "github.com/cosmos/cosmos-sdk/types"

	"github.com/comdex-official/comdex/x/auctionsV2/types"
	"github.com/comdex-official/comdex/zzvp"
)

// C11 (English-style auctions, second generation): one bid on an arbitrary running auction. Custody changes by exactly
// (new standing bid - previous standing bid), the outbid bidder is refunded in full in the same step, the new bid
// improves on the previous one by at least ceil(factor * previous), and the auction record carries the new bid.
func VP_C11_V2EnglishBid() {
	zzvp.Option("overflow-as-obligation")
	var k Keeper
	zzvp.Wire(&k)
	ctx := zzvp.Ctx()
	var a types.Auction
	zzvp.AnyOf(&a)
	a.AuctionType = false
	zzvp.Assume(zzvp.And(a.AuctionId != 0, a.CollateralToken.Denom != a.DebtToken.Denom))
	// invariant of a running auction: a standing bid exists iff bids were recorded, and its record names a bidder
	active := a.ActiveBiddingId != 0
	zzvp.Assume(active == (a.BiddingIds != nil))
	// invariant: bid ids are handed out by the counter, the standing bid's id is not above it
	zzvp.Assume(zzvp.And(a.ActiveBiddingId <= k.GetUserBidID(ctx), k.GetUserBidID(ctx) < 1<<62))
	_ = k.SetAuction(ctx, a)
	lv, okLV := k.LiquidationsV2.GetLockedVault(ctx, a.AppId, a.LockedVaultId)
	zzvp.Assume(okLV)
	debtType := lv.InitiatorType == "debt"
	prevBid, errPB := k.GetUserBid(ctx, a.ActiveBiddingId)
	zzvp.Assume(zzvp.Implies(active, errPB == nil))
	prevStr := prevBid.BidderAddress
	if !active {
		prevStr = zzvp.AnyString() // no standing bid: stands for "nobody" (an arbitrary third account)
	}
	prevAddr, errPA := sdk.AccAddressFromBech32(prevStr)
	zzvp.Assume(errPA == nil)
	params, _ := k.GetAuctionParams(ctx)
	zzvp.Assume(zzvp.And(!params.BidFactor.IsNegative(), params.BidFactor.LTE(sdk.OneDec())))
	bidder := zzvp.AnyString()
	addr, errA := sdk.AccAddressFromBech32(bidder)
	zzvp.Assume(errA == nil)
	zzvp.Assume(!addr.Equals(prevAddr))
	bid := sdk.Coin{Denom: zzvp.AnyString(), Amount: zzvp.AnySdkInt()}
	msg := &types.MsgPlaceMarketBidRequest{AuctionId: a.AuctionId, Bidder: bidder, Amount: bid}
	zzvp.Assume(msg.ValidateBasic() == nil)
	zzvp.Mark()
	_, err := NewMsgServerImpl(k).MsgPlaceMarketBid(sdk.WrapSDKContext(ctx), msg)
	if err != nil {
		return
	}
	zzvp.Reach("bid-accepted")
	custody := zzvp.ModuleAddr(types.ModuleName)
	D := a.DebtToken.Denom
	dCust := zzvp.ZI(zzvp.BalanceDelta(custody, D))
	dPrev := zzvp.ZI(zzvp.BalanceDelta(prevAddr, D))
	dNew := zzvp.ZI(zzvp.BalanceDelta(addr, D))
	prev := zzvp.ZI(a.DebtToken.Amount)
	post, _ := k.GetAuction(ctx, a.AuctionId)
	zero := zzvp.ZN(0)
	if debtType {
		// debt auction: every bidder pays the fixed debt amount and bids for less of the lot
		zzvp.Assert(bid.Denom == a.CollateralToken.Denom, "bid-in-the-lot-denomination")
		zzvp.Assert(dCust.Equal(zzvp.IteZ(active, zero, prev)), "custody-holds-exactly-the-standing-payment")
		zzvp.Assert(dNew.Equal(prev.Neg()), "new-bidder-pays-the-debt-amount")
		lot := zzvp.ZI(a.CollateralToken.Amount)
		f := zzvp.ZD(params.BidFactor)
		// bid <= lot - ceil(factor*lot)  <=>  (lot - bid) * 1e18 >= factor * lot
		zzvp.Assert(zzvp.Implies(active, lot.Sub(zzvp.ZI(bid.Amount)).Mul(zzvp.Pow10(18)).GTE(f.Mul(lot))), "bid-improves-by-at-least-the-bid-factor")
		zzvp.Assert(zzvp.ZI(bid.Amount).LTE(lot), "bid-never-above-the-current-lot")
		zzvp.Assert(post.CollateralToken.Amount.Equal(bid.Amount), "auction-records-the-new-standing-bid")
	} else {
		zzvp.Assert(bid.Denom == D, "bid-in-the-debt-denomination")
		zzvp.Assert(dCust.Equal(zzvp.ZI(bid.Amount).Sub(zzvp.IteZ(active, prev, zero))), "custody-delta=new-bid-minus-previous-bid")
		zzvp.Assert(dNew.Equal(zzvp.ZI(bid.Amount).Neg()), "new-bidder-pays-exactly-the-bid")
		f := zzvp.ZD(params.BidFactor)
		// bid >= prev + ceil(factor*prev)  <=>  (bid - prev) * 1e18 >= factor * prev
		zzvp.Assert(zzvp.Implies(active, zzvp.ZI(bid.Amount).Sub(prev).Mul(zzvp.Pow10(18)).GTE(f.Mul(prev))), "bid-improves-by-at-least-the-bid-factor")
		zzvp.Assert(zzvp.ZI(bid.Amount).GTE(prev), "bid-never-below-the-standing-bid-or-reserve")
		zzvp.Assert(post.DebtToken.Amount.Equal(bid.Amount), "auction-records-the-new-standing-bid")
	}
	zzvp.Assert(dPrev.Equal(zzvp.IteZ(active, prev, zero)), "outbid-bidder-refunded-in-full-in-the-same-step")
	zzvp.Assert(post.ActiveBiddingId != a.ActiveBiddingId && post.ActiveBiddingId != 0, "standing-bid-id-updated")
}
