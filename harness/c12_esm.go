//vp:target x/esm/keeper/zz_vp_c12.go
//vp:load ./app
//go:build verif

package keeper

import (
	sdk "github.com/cosmos/cosmos-sdk/types"

	"github.com/comdex-official/comdex/x/esm/types"
	"github.com/comdex-official/comdex/zzvp"
)

// C12 (kill switch): the circuit breaker of an app can only be switched by one of the configured admin addresses; a
// refused request leaves the stored switch alone. Contrapositive form: the sender is assumed not to be in the admin list
// (list of 0..2 arbitrary addresses).
func VP_C12_EsmMsgKillSwitchOnlyByAdmin() {
	var k Keeper
	zzvp.Wire(&k)
	ctx := zzvp.Ctx()
	from := zzvp.AnyString()
	n := zzvp.Choose(3)
	admins := []string{}
	for i := 0; i < n; i++ {
		a := zzvp.AnyString()
		zzvp.Assume(a != from)
		admins = append(admins, a)
	}
	// written under the parameter's own key (what SetParamSet does for the pair (KeyAdmin, Admin); the executor's
	// SetParamSet model keys parameters by field name, which does not match this module's lower-case key)
	k.paramstore.Set(ctx, types.KeyAdmin, admins)
	app := zzvp.AnyUint64()
	pre, preFound := k.GetKillSwitchData(ctx, app)
	zzvp.Assume(zzvp.Implies(preFound, pre.AppId == app))
	msg := &types.MsgKillRequest{From: from, KillSwitchParams: &types.KillSwitchParams{AppId: app, BreakerEnable: zzvp.AnyBool()}}
	_, err := NewMsgServer(k).MsgKillSwitch(sdk.WrapSDKContext(ctx), msg)
	zzvp.Reach("handler-returned")
	zzvp.Assert(err != nil, "kill-switch-refused-for-a-non-admin")
	post, postFound := k.GetKillSwitchData(ctx, app)
	zzvp.Assert(zzvp.And(postFound == preFound, zzvp.Implies(preFound, post.BreakerEnable == pre.BreakerEnable)), "refused-request-leaves-the-switch-alone")
}
