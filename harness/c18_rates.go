//vp:target x/lend/keeper/zz_vp_c18r.go
//vp:load ./app
//go:build verif

package keeper

import (
	sdk "github.com/cosmos/cosmos-sdk/types"

	assetkeeper "github.com/comdex-official/comdex/x/asset/keeper"
	assettypes "github.com/comdex-official/comdex/x/asset/types"
	"github.com/comdex-official/comdex/x/lend/types"
	"github.com/comdex-official/comdex/zzvp"
)

type vpRateParams struct{ uopt, base, s1, s2, sbase, ss1, ss2, reserve string }

var vpRateGrid = []vpRateParams{
	{"0.8", "0.002", "0.1", "3", "0.04", "0.04", "1", "0.1"},
	{"0.5", "0", "0.000000000000000001", "10", "0", "0", "0", "0"},
	{"0.999999999999999999", "10", "10", "10", "1", "2", "3", "1"},
	{"0.000000000000000001", "0.05", "0", "0.5", "0.07", "0.3", "0.9", "0.999999999999999999"},
	// a stable curve far above the variable one with a small reserve factor: a lend rate derived from the stable curve
	// would exceed the variable borrow rate (seed c18-lend-rate-from-stable-curve)
	{"0.8", "0.002", "0.06", "0.6", "0.2", "0.04", "1", "0.1"},
}

// vpRateWorld seeds (closed world) one asset, its rate parameters from the grid, and one pool whose cash balance and
// borrowed totals are given; returns the keeper, context and ids.
func vpRateWorld(p vpRateParams, poolID uint64, cash, borrowed, stable sdk.Int, k Keeper, ak assetkeeper.Keeper, ctx sdk.Context, assetID uint64, denom string) {
	module := "vp-pool-" + string(rune('a'+poolID))
	k.SetPool(ctx, types.Pool{PoolID: poolID, ModuleName: module})
	k.SetAssetStatsByPoolIDAndAssetID(ctx, types.PoolAssetLBMapping{PoolID: poolID, AssetID: assetID, TotalBorrowed: borrowed, TotalStableBorrowed: stable,
		TotalLend: sdk.ZeroInt(), TotalInterestAccumulated: sdk.ZeroInt(), LendApr: sdk.ZeroDec(), BorrowApr: sdk.ZeroDec(), StableBorrowApr: sdk.ZeroDec(), UtilisationRatio: sdk.ZeroDec()})
	zzvp.SetBalance(zzvp.ModuleAddr(module), denom, cash)
}

// C18 (rate model): for admissible model parameters (grid) the variable and the stable borrow rate are non-decreasing
// in pool utilisation, equal the base rate at zero utilisation, do not jump at the optimal-utilisation kink, and the
// lend rate never exceeds the borrow rate. One pool has grid utilisation (incl. exactly 0 and exactly the kink), the
// other an arbitrary one; rates of the two pools are compared (sandwich monotonicity).
func VP_C18_RateModelShape() {
	zzvp.Option("overflow-as-obligation")
	var k Keeper
	zzvp.Wire(&k)
	var ak assetkeeper.Keeper
	zzvp.Wire(&ak)
	ctx := zzvp.ClosedCtx()
	p := vpRateGrid[zzvp.Choose(len(vpRateGrid))]
	const assetID = 7
	denom := "vpdenom"
	ak.SetAsset(ctx, assettypes.Asset{Id: assetID, Name: "VP", Denom: denom, Decimals: sdk.NewInt(1000000)})
	D := sdk.MustNewDecFromStr
	rp := types.AssetRatesParams{AssetID: assetID, UOptimal: D(p.uopt), Base: D(p.base), Slope1: D(p.s1), Slope2: D(p.s2), EnableStableBorrow: true,
		StableBase: D(p.sbase), StableSlope1: D(p.ss1), StableSlope2: D(p.ss2), ReserveFactor: D(p.reserve),
		Ltv: sdk.ZeroDec(), LiquidationThreshold: sdk.ZeroDec(), LiquidationPenalty: sdk.ZeroDec(), LiquidationBonus: sdk.ZeroDec(),
		ELtv: sdk.ZeroDec(), ELiquidationThreshold: sdk.ZeroDec(), ELiquidationPenalty: sdk.ZeroDec()}
	k.SetAssetRatesParams(ctx, rp)
	// pool 1: grid utilisation: (cash, borrowed) with borrowed/(cash+borrowed) in {0, just below kink, kink, just above, 1}
	type cb struct{ cash, bor int64 }
	gridU := []cb{{1000000, 0}, {0, 1000000}, {500000, 500000}, {200001, 799999}, {200000, 800000}, {199999, 800001}}
	g := gridU[zzvp.Choose(len(gridU))]
	vpRateWorld(p, 1, sdk.NewInt(g.cash), sdk.NewInt(g.bor), sdk.ZeroInt(), k, ak, ctx, assetID, denom)
	// pool 2: arbitrary utilisation
	cash, bor := zzvp.AnySdkInt(), zzvp.AnySdkInt()
	lim := sdk.NewInt(1000000000)
	zzvp.Assume(zzvp.And(!cash.IsNegative(), !bor.IsNegative(), cash.LTE(lim), bor.LTE(lim), cash.Add(bor).IsPositive()))
	vpRateWorld(p, 2, cash, bor, sdk.ZeroInt(), k, ak, ctx, assetID, denom)
	stable := zzvp.Choose(2) == 1
	r1, e1 := k.GetBorrowAPRByAssetID(ctx, 1, assetID, stable)
	r2, e2 := k.GetBorrowAPRByAssetID(ctx, 2, assetID, stable)
	if e1 != nil || e2 != nil {
		return
	}
	zzvp.Reach("rates-computed")
	// u1 <= u2  <=>  bor1 * (cash2 + bor2) <= bor2 * (cash1 + bor1)
	Z := zzvp.ZI
	u1le := zzvp.ZN(g.bor).Mul(Z(cash).Add(Z(bor))).LTE(Z(bor).Mul(zzvp.ZN(g.cash + g.bor)))
	u2le := Z(bor).Mul(zzvp.ZN(g.cash + g.bor)).LTE(zzvp.ZN(g.bor).Mul(Z(cash).Add(Z(bor))))
	// the utilisation itself is rounded to 18 places before it enters the model: allow that one rounding step
	tol := sdk.NewDecWithPrec(1, 15)
	zzvp.Assert(zzvp.Implies(u1le, r1.LTE(r2.Add(tol))), "rate-non-decreasing-in-utilisation(grid<=any)")
	zzvp.Assert(zzvp.Implies(u2le, r2.LTE(r1.Add(tol))), "rate-non-decreasing-in-utilisation(any<=grid)")
	zzvp.Assert(zzvp.And(!r1.IsNegative(), !r2.IsNegative()), "rates-non-negative")
	base := rp.Base
	if stable {
		base = rp.StableBase
	}
	if g.bor == 0 {
		zzvp.Assert(r1.Equal(base), "rate-at-zero-utilisation-is-the-base-rate")
	}
	if !stable {
		// at the grid utilisations (concrete evaluation); for an arbitrary utilisation: VP_C18_LendRateBelowBorrowRate
		l1, e3 := k.GetLendAPRByAssetIDAndPoolID(ctx, 1, assetID)
		if e3 == nil {
			zzvp.Assert(l1.LTE(r1), "lend-rate-never-above-borrow-rate(grid)")
		}
	}
}

// C18 (rate model), thorough tier only: the lend rate never exceeds the variable borrow rate for an ARBITRARY
// utilisation (two chained decimal products of three symbolic factors: undecided at the quick tier's 60 s cap on 6 of 24
// instances, hence thorough only; kept apart from VP_C18_RateModelShape so that its definitions do not burden the
// other queries of that path).
func VP_C18_LendRateBelowBorrowRate() {
	if !zzvp.Thorough() {
		zzvp.Option("thorough-only")
		return
	}
	zzvp.Option("overflow-as-obligation")
	var k Keeper
	zzvp.Wire(&k)
	var ak assetkeeper.Keeper
	zzvp.Wire(&ak)
	ctx := zzvp.ClosedCtx()
	p := vpRateGrid[zzvp.Choose(len(vpRateGrid))]
	const assetID = 7
	denom := "vpdenom"
	ak.SetAsset(ctx, assettypes.Asset{Id: assetID, Name: "VP", Denom: denom, Decimals: sdk.NewInt(1000000)})
	D := sdk.MustNewDecFromStr
	k.SetAssetRatesParams(ctx, types.AssetRatesParams{AssetID: assetID, UOptimal: D(p.uopt), Base: D(p.base), Slope1: D(p.s1), Slope2: D(p.s2), EnableStableBorrow: true,
		StableBase: D(p.sbase), StableSlope1: D(p.ss1), StableSlope2: D(p.ss2), ReserveFactor: D(p.reserve),
		Ltv: sdk.ZeroDec(), LiquidationThreshold: sdk.ZeroDec(), LiquidationPenalty: sdk.ZeroDec(), LiquidationBonus: sdk.ZeroDec(),
		ELtv: sdk.ZeroDec(), ELiquidationThreshold: sdk.ZeroDec(), ELiquidationPenalty: sdk.ZeroDec()})
	cash, bor := zzvp.AnySdkInt(), zzvp.AnySdkInt()
	lim := sdk.NewInt(1000000000)
	zzvp.Assume(zzvp.And(!cash.IsNegative(), !bor.IsNegative(), cash.LTE(lim), bor.LTE(lim), cash.Add(bor).IsPositive()))
	vpRateWorld(p, 2, cash, bor, sdk.ZeroInt(), k, ak, ctx, assetID, denom)
	r2, e2 := k.GetBorrowAPRByAssetID(ctx, 2, assetID, false)
	l2, e4 := k.GetLendAPRByAssetIDAndPoolID(ctx, 2, assetID)
	if e2 != nil || e4 != nil {
		return
	}
	zzvp.Reach("both-rates-computed")
	zzvp.Assert(l2.LTE(r2), "lend-rate-never-above-borrow-rate")
}
