//vp:target x/bandoracle/zz_vp_c15_band.go
//vp:load ./app
//go:build verif

package bandoracle

import (
	abci "github.com/cometbft/cometbft/abci/types"

	"github.com/comdex-official/comdex/x/bandoracle/keeper"
	"github.com/comdex-official/comdex/x/bandoracle/types"
	"github.com/comdex-official/comdex/zzvp"
)

const vpBK = "(github.com/comdex-official/comdex/x/bandoracle/keeper.Keeper)."

// C15 (unwrapped top-level hook code): bandoracle.BeginBlocker returns normally for every stored oracle bookkeeping
// state (each record present with arbitrary contents, or all of them missing as on a fresh chain) and every block
// height. Sending the request and validating a result are contract stubs (any outcome).
func VP_C15_BandOracleBeginBlockerNeverPanics() {
	zzvp.Stub(vpBK + "FetchPrice")
	zzvp.Stub(vpBK + "OraclePriceValidationByRequestID")
	var k keeper.Keeper
	zzvp.Wire(&k)
	ctx := zzvp.ClosedCtx().WithBlockHeight(zzvp.AnyInt64())
	zzvp.Assume(ctx.BlockHeight() >= 1)
	if zzvp.AnyBool() {
		k.SetLastBlockHeight(ctx, zzvp.AnyInt64())
		k.SetCheckFlag(ctx, zzvp.AnyBool())
		k.SetFetchPriceMsg(ctx, types.MsgFetchPriceData{OracleScriptID: zzvp.AnyUint64(), TwaBatchSize: zzvp.AnyUint64(), AcceptedHeightDiff: zzvp.AnyInt64()})
		k.SetLastFetchPriceID(ctx, types.OracleRequestID(zzvp.AnyInt64()))
		k.SetTempFetchPriceID(ctx, zzvp.AnyInt64())
		k.SetDiscardData(ctx, types.DiscardData{BlockHeight: zzvp.AnyInt64(), DiscardBool: zzvp.AnyBool()})
		k.SetOracleValidationResult(ctx, zzvp.AnyBool())
	}
	panicked := zzvp.Try(func() { BeginBlocker(ctx, abci.RequestBeginBlock{}, k) })
	zzvp.Reach("begin-blocker-returned")
	zzvp.Assert(!panicked, "bandoracle-begin-blocker-never-panics")
}
