//vp:target x/liquidationsV2/zz_vp_c20.go
//vp:load ./app
//go:build verif

package liquidationsV2

import (
	"github.com/comdex-official/comdex/x/liquidationsV2/keeper"
	"github.com/comdex-official/comdex/x/liquidationsV2/types"
	"github.com/comdex-official/comdex/zzvp"
)

// C20 (second-generation liquidations): export + import carries the locked vaults, and the locked-vault id counter is
// such that the next seizure does not reuse the id of an existing locked vault. Closed world; the counter is the id of
// the newest locked vault, as CreateLockedVault leaves it.
func VP_C20_LiquidationsV2RoundTrip() {
	var k keeper.Keeper
	zzvp.Wire(&k)
	ctx := zzvp.EmptyCtx()
	var lv types.LockedVault
	zzvp.AnyOf(&lv)
	zzvp.Assume(lv.LockedVaultId >= 1)
	k.SetLockedVault(ctx, lv)
	k.SetLockedVaultID(ctx, lv.LockedVaultId)
	g := ExportGenesis(ctx, k)
	ctx2 := zzvp.EmptyCtx()
	InitGenesis(ctx2, k, *g)
	zzvp.Reach("round-trip-done")
	lv2, found := k.GetLockedVault(ctx2, lv.AppId, lv.LockedVaultId)
	zzvp.Assert(zzvp.And(found, lv2.LockedVaultId == lv.LockedVaultId, lv2.OriginalVaultId == lv.OriginalVaultId, lv2.Owner == lv.Owner), "locked-vault-carried-over")
	zzvp.Assert(k.GetLockedVaultID(ctx2) >= lv.LockedVaultId, "next-locked-vault-id-does-not-collide")
}
