//vp:target x/auction/zz_vp_c20.go
//vp:load ./app
//go:build verif

package auction

import (
	assetkeeper "github.com/comdex-official/comdex/x/asset/keeper"
	assettypes "github.com/comdex-official/comdex/x/asset/types"
	"github.com/comdex-official/comdex/x/auction/keeper"
	"github.com/comdex-official/comdex/x/auction/types"
	"github.com/comdex-official/comdex/zzvp"
)

// C20 (first-generation auctions): export + import into an empty store carries the running lend Dutch auctions (app 3)
// into the lend-auction table and keeps vault Dutch auctions out of it, and both auction id counters are such that the
// next auction does not reuse the id of a running one. Closed world: one vault Dutch auction, one surplus auction, one
// lend Dutch auction, counters at the highest id handed out.
func VP_C20_AuctionRoundTrip() {
	var k keeper.Keeper
	zzvp.Wire(&k)
	ctx := zzvp.EmptyCtx()
	var d, l types.DutchAuction
	var s types.SurplusAuction
	zzvp.AnyOf(&d)
	zzvp.AnyOf(&l)
	zzvp.AnyOf(&s)
	l.AppId = 3 // the lending app: ExportGenesis exports the lend auctions of app 3
	d.AppId, s.AppId = 2, 2
	var ak assetkeeper.Keeper
	zzvp.Wire(&ak)
	ak.SetApp(ctx, assettypes.AppData{Id: 2, Name: "app2", ShortName: "a2"}) // the export walks the apps of the asset module
	zzvp.Assume(d.AuctionId >= 1 && l.AuctionId >= 1 && s.AuctionId >= 1 && d.AuctionId != s.AuctionId)
	k.SetGenDutchAuction(ctx, d)
	k.SetGenSurplusAuction(ctx, s)
	k.SetGenLendDutchLendAuction(ctx, l)
	top := d.AuctionId
	if s.AuctionId > top {
		top = s.AuctionId
	}
	k.SetAuctionID(ctx, top)
	k.SetLendAuctionID(ctx, l.AuctionId)
	g := ExportGenesis(ctx, k)
	ctx2 := zzvp.EmptyCtx()
	InitGenesis(ctx2, k, g)
	zzvp.Reach("round-trip-done")
	lend2 := k.GetDutchLendAuctions(ctx2, 3)
	zzvp.Assert(len(lend2) == 1, "exactly-the-lend-auction-is-in-the-lend-table")
	if len(lend2) == 1 {
		zzvp.Assert(lend2[0].AuctionId == l.AuctionId && lend2[0].AppId == 3, "lend-auction-carried-over")
	}
	zzvp.Assert(len(k.GetDutchLendAuctions(ctx2, 2)) == 0, "vault-auction-not-written-into-the-lend-table")
	zzvp.Assert(k.GetLendAuctionID(ctx2) >= l.AuctionId, "next-lend-auction-id-does-not-collide")
	zzvp.Assert(k.GetAuctionID(ctx2) >= d.AuctionId && k.GetAuctionID(ctx2) >= s.AuctionId, "next-auction-id-does-not-collide")
}
