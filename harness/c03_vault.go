//vp:target x/vault/keeper/zz_vp_c03.go
//vp:load ./app
//go:build verif

package keeper

import (
	sdk "github.com/cosmos/cosmos-sdk/types"

	assetkeeper "github.com/comdex-official/comdex/x/asset/keeper"
	assettypes "github.com/comdex-official/comdex/x/asset/types"
	marketkeeper "github.com/comdex-official/comdex/x/market/keeper"
	markettypes "github.com/comdex-official/comdex/x/market/types"
	"github.com/comdex-official/comdex/zzvp"
)

const vpVerifyCR = "(github.com/comdex-official/comdex/x/vault/keeper.Keeper).VerifyCollaterlizationRatio"

// decimal scales (collateral, debt) of the gate lemma
var vpDecimalPairs = [][2]int64{{1, 1}, {1000000, 1000000}, {1000000, 100000000}, {100000000, 1000000}, {1, 1000000}, {1000000, 1},
	{1000000, 1000000000000000000}, {1000000000000000000, 1000000},
	{1000000000000000000, 1000000000000000000}, {1, 1000000000000000000}, {1000000000000000000, 1}}

const vpQuickDecimalPairs = 6 // the pairs involving 10^18 take 20 s to more than 60 s per query: thorough tier only (300 s cap)

// C03 (i) gate lemma: outside emergency shutdown, VerifyCollaterlizationRatio returns nil only if the exact collateral
// value divided by the exact debt value is at least MinCr up to the three decimal roundings of the implementation,
// and only if every price it needs is present and active. Real arithmetic; decimal scales from a grid, amounts, prices
// and MinCr symbolic.
func VP_C03_GateLemma() {
	var k Keeper
	zzvp.Wire(&k)
	var mk marketkeeper.Keeper
	zzvp.Wire(&mk)
	var ak assetkeeper.Keeper
	zzvp.Wire(&ak)
	ctx := zzvp.EmptyCtx() // closed world: exactly the records seeded below (and no emergency-shutdown record)
	var ext assettypes.ExtendedPairVault
	zzvp.AnyOf(&ext)
	var pair assettypes.Pair
	zzvp.AnyOf(&pair)
	var ai, ao assettypes.Asset
	zzvp.AnyOf(&ai)
	zzvp.AnyOf(&ao)
	var ti, to markettypes.TimeWeightedAverage
	zzvp.AnyOf(&ti)
	zzvp.AnyOf(&to)
	zzvp.Assume(zzvp.And(ext.PairId == pair.Id, pair.AssetIn == ai.Id, pair.AssetOut == ao.Id, ai.Id != ao.Id, ti.AssetID == ai.Id, to.AssetID == ao.Id))
	// quick: the first six pairs. Thorough adds {10^18, 10^6} and {10^18, 10^18}; the pairs {10^6, 10^18}, {1, 10^18} and
	// {10^18, 1} stayed undecided at the 300 s cap in at least one run on the unchanged tree and are therefore outside the
	// registered bound (only bounds that ran clean are registered)
	idx := []int{0, 1, 2, 3, 4, 5}
	if zzvp.Thorough() {
		idx = append(idx, 7, 8)
	}
	dp := vpDecimalPairs[idx[zzvp.Choose(len(idx))]]
	dI, dO := dp[0], dp[1]
	ai.Decimals, ao.Decimals = sdk.NewInt(dI), sdk.NewInt(dO)
	// value ranges of this obligation (stated bound): prices up to 10^13 (micro-USD), amounts up to 10^24 base units, MinCr up to 1000
	zzvp.Assume(zzvp.And(ti.Twa <= 10000000000000, to.Twa <= 10000000000000, ext.AssetOutPrice <= 10000000000000, ext.MinCr.LTE(sdk.NewDec(1000))))
	ak.SetPairsVault(ctx, ext)
	ak.SetPair(ctx, pair)
	ak.SetAsset(ctx, ai)
	ak.SetAsset(ctx, ao)
	hasIn, hasOut := zzvp.AnyBool(), zzvp.AnyBool()
	if hasIn {
		mk.SetTwa(ctx, ti)
	}
	if hasOut {
		mk.SetTwa(ctx, to)
	}
	in, out := zzvp.AnySdkInt(), zzvp.AnySdkInt()
	lim, _ := sdk.NewIntFromString("1000000000000000000000000")
	zzvp.Assume(zzvp.And(in.IsPositive(), out.IsPositive(), in.LTE(lim), out.LTE(lim)))
	err := k.VerifyCollaterlizationRatio(ctx, ext.Id, in, out, ext.MinCr, false)
	if err != nil {
		return
	}
	zzvp.Reach("gate-passed")
	zzvp.Assert(zzvp.And(hasIn, ti.IsPriceActive), "collateral-price-present-and-active")
	zzvp.Assert(zzvp.Implies(ext.AssetOutOraclePrice, zzvp.And(hasOut, to.IsPriceActive)), "debt-price-present-and-active-when-oracle-priced")
	// exact integers: X = in*pIn*dO (collateral value), Y = out*pOut*dI (debt value), both over the common denominator dI*dO
	pOut := zzvp.IteZ(ext.AssetOutOraclePrice, zzvp.ZU(to.Twa), zzvp.ZU(ext.AssetOutPrice))
	e18 := zzvp.Pow10(18)
	X := zzvp.ZI(in).Mul(zzvp.ZU(ti.Twa)).Mul(zzvp.ZN(dO))
	Y := zzvp.ZI(out).Mul(pOut).Mul(zzvp.ZN(dI))
	dd := zzvp.ZN(dI).Mul(zzvp.ZN(dO))
	M := zzvp.ZD(ext.MinCr)
	// (X*1e18 + dd) * 1e18 >= (M - 1) * (Y*1e18 - dd): each of the three Dec quotients is within one unit of the 18th place
	lhs := X.Mul(e18).Add(dd).Mul(e18)
	rhs := M.Sub(zzvp.ZN(1)).Mul(Y.Mul(e18).Sub(dd))
	zzvp.Assert(lhs.GTE(rhs), "exact-ratio>=MinCr-rounding")
}

// C03 (ii) plumbing: every handler that must respect the ratio calls the gate with this product, the position's
// post-operation collateral and its post-operation total debt, the product's MinCr and the shutdown flag it read, and
// honours the answer. The gate itself is a contract stub here (any answer), its arguments and result are recorded.
// Also: debt floor and debt ceiling after the step.
func vpC03(h int) {
	w := vpVaultWorld(true)
	k, ctx := w.k, w.ctx
	zzvp.Mark()
	if w.vpVaultCall(h) != nil {
		return
	}
	zzvp.Reach("handler-succeeded")
	id := w.vaultID
	if h == vpHCreate {
		id = w.newID
	}
	post, found := k.GetVault(ctx, id)
	n := zzvp.SpyCount(vpVerifyCR)
	switch h {
	case vpHCreate, vpHDraw, vpHWithdraw, vpHDepositAndDraw:
		zzvp.Assert(n >= 1, "ratio-gate-consulted")
		if n >= 1 {
			c := n - 1 // the call that decides the operation (deposit-and-draw consults it for the draw)
			zzvp.Assert(zzvp.SpyErrNil(vpVerifyCR, c), "gate-answer-honoured")
			zzvp.Assert(zzvp.SpyArgZ(vpVerifyCR, c, 2).Equal(zzvp.ZU(w.extID)), "gate-asked-about-this-product")
			zzvp.Assert(found, "position-exists-after-step")
			zzvp.Assert(zzvp.SpyArgZ(vpVerifyCR, c, 3).Equal(zzvp.ZI(post.AmountIn)), "gate-sees-post-operation-collateral")
			debt := zzvp.ZI(post.AmountOut)
			if h != vpHCreate {
				full := debt.Add(zzvp.ZI(post.InterestAccumulated)).Add(zzvp.ZI(post.ClosingFeeAccumulated))
				// under emergency shutdown withdraw is checked against principal only (outside the property's scope)
				debt = zzvp.IteZ(w.esmOn, debt, full)
			}
			zzvp.Assert(zzvp.SpyArgZ(vpVerifyCR, c, 4).Equal(debt), "gate-sees-post-operation-total-debt")
			zzvp.Assert(zzvp.SpyArgZ(vpVerifyCR, c, 5).Equal(zzvp.ZD(w.ext.MinCr)), "gate-uses-the-products-MinCr")
			zzvp.Assert(zzvp.SpyArgBool(vpVerifyCR, c, 6) == w.esmOn, "gate-told-the-shutdown-flag")
		}
	}
	// debt floor: a position that still exists is at or above the floor, unless the step did not lower its principal
	if h != vpHCreateStable && h != vpHDepositStable && h != vpHWithdrawStable {
		pre := zzvp.IteZ(w.hasVault, zzvp.ZI(w.v.AmountOut), zzvp.ZN(0))
		zzvp.Assert(zzvp.Implies(found, zzvp.Or(zzvp.ZI(post.AmountOut).GTE(zzvp.ZI(w.ext.DebtFloor)), zzvp.And(h != vpHCreate, zzvp.ZI(post.AmountOut).GTE(pre)))), "principal-not-left-below-debt-floor")
	}
	// debt ceiling: a step that mints leaves the product's outstanding principal within the ceiling
	switch h {
	case vpHCreate, vpHDraw, vpHDepositAndDraw, vpHCreateStable, vpHDepositStable:
		pm, _ := k.GetAppExtendedPairVaultMappingData(ctx, w.appID, w.extID)
		zzvp.Assert(zzvp.ZI(pm.TokenMintedAmount).LTE(zzvp.ZI(w.ext.DebtCeiling)), "outstanding-principal-within-debt-ceiling")
	}
}

func VP_C03_MsgCreate()            { vpC03(vpHCreate) }
func VP_C03_MsgDraw()              { vpC03(vpHDraw) }
func VP_C03_MsgWithdraw()          { vpC03(vpHWithdraw) }
func VP_C03_MsgDepositAndDraw()    { vpC03(vpHDepositAndDraw) }
func VP_C03_MsgRepay()             { vpC03(vpHRepay) }
func VP_C03_MsgCreateStableMint()  { vpC03(vpHCreateStable) }
func VP_C03_MsgDepositStableMint() { vpC03(vpHDepositStable) }
