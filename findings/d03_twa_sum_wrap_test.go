package keeper_test

import (
	"testing"

	tmproto "github.com/cometbft/cometbft/proto/tendermint/types"

	chain "github.com/comdex-official/comdex/app"
)

// D3 (C17): the 64-bit accumulator of CalculateTwa wraps: window 2, samples 2^63 -> published mean must be 2^63
func TestVPFindingD03(t *testing.T) {
	app := chain.Setup(t, false)
	ctx := app.BaseApp.NewContext(false, tmproto.Header{Height: 20})
	k := app.MarketKeeper
	const big = uint64(1) << 63
	k.UpdatePriceList(ctx, 1, 1, big, 2, 10)
	k.UpdatePriceList(ctx, 1, 1, big, 2, 10)
	twa, _ := k.GetTwa(ctx, 1)
	if !twa.IsPriceActive || twa.Twa != big {
		t.Fatalf("VP-REPRODUCED D3: active=%v published=%d want %d", twa.IsPriceActive, twa.Twa, big)
	}
}
