package amm_test

import (
	"testing"

	sdkmath "cosmossdk.io/math"

	"github.com/comdex-official/comdex/x/liquidity/amm"
)

// D21 (C05): batch matching must exchange exactly as much base coin as buyers receive and sellers pay.
// One buy order of 201 at 0.5 against two sell orders of one tick and one batch-id group:
//   A: amount 1,000,000 of which 200 are still open (filled in earlier batches), B: amount 200, untouched.
// The sell tick is given 201. The pro-rata pass gives A 200 (its cap) and B 0, the remainder pass gives B 1;
// a sell of 1 at 0.5 is worth 0 quote, so B is dropped and the distribution is repeated with A alone, which can take
// only 200: the sell side delivers 200 base while the buy side was filled with 201.
func TestVPFindingD21(t *testing.T) {
	p := sdkmath.LegacyMustNewDecFromStr("0.5")
	buy := amm.NewBaseOrder(amm.Buy, p, sdkmath.NewInt(201), sdkmath.NewInt(101))
	a := amm.NewBaseOrder(amm.Sell, p, sdkmath.NewInt(1000000), sdkmath.NewInt(1000000))
	a.OpenAmount = sdkmath.NewInt(200)
	a.PaidOfferCoinAmount = sdkmath.NewInt(999800)
	a.ReceivedDemandCoinAmount = sdkmath.NewInt(499900)
	b := amm.NewBaseOrder(amm.Sell, p, sdkmath.NewInt(200), sdkmath.NewInt(200))
	aPaid0 := a.PaidOfferCoinAmount

	for _, mode := range []string{"single-price", "two-sided"} {
		bb, aa, b2 := *buy, *a, *b
		ob := amm.NewOrderBook(&bb, &aa, &b2)
		if mode == "single-price" {
			_, matched := ob.MatchAtSinglePrice(p)
			if !matched {
				t.Fatal("not matched")
			}
		} else {
			_, _, matched := ob.Match(sdkmath.LegacyMustNewDecFromStr("0.4")) // last price below: price increasing, two-sided loop
			if !matched {
				t.Fatal("not matched")
			}
		}
		baseReceivedByBuyers := bb.ReceivedDemandCoinAmount
		basePaidBySellers := aa.PaidOfferCoinAmount.Sub(aPaid0).Add(b2.PaidOfferCoinAmount)
		t.Logf("%s: buyers received %s base, sellers paid %s base", mode, baseReceivedByBuyers, basePaidBySellers)
		if !baseReceivedByBuyers.Equal(basePaidBySellers) {
			t.Errorf("VP-REPRODUCED D21 (%s): buyers received %s base coin but sellers paid only %s", mode, baseReceivedByBuyers, basePaidBySellers)
		}
	}
}
