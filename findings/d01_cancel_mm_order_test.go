package keeper_test

import (
	"time"

	sdkmath "cosmossdk.io/math"

	utils "github.com/comdex-official/comdex/types"
	"github.com/comdex-official/comdex/x/liquidity/types"
)

// D1 (C07): with appID != pairID, CancelMMOrder must still cancel and refund every market-making order of the owner
func (s *KeeperTestSuite) TestVPFindingD01() {
	_ = s.CreateNewApp("appone")
	appID2 := s.CreateNewApp("apptwo")
	asset1 := s.CreateNewAsset("ASSETONE", "denom1", 1000000)
	asset2 := s.CreateNewAsset("ASSETTWO", "denom2", 2000000)
	pair := s.CreateNewLiquidityPair(appID2, s.addr(0), asset1.Denom, asset2.Denom)
	pair.LastPrice = utils.ParseDecP("1.0")
	s.keeper.SetPair(s.ctx, pair)
	s.Require().NotEqual(appID2, pair.Id, "the point of the test: app id and pair id differ")
	orders := s.MarketMakingOrder(
		s.addr(1), appID2, pair.Id,
		utils.ParseDec("1.1"), utils.ParseDec("1.03"), sdkmath.NewInt(1000_000000),
		utils.ParseDec("0.97"), utils.ParseDec("0.9"), sdkmath.NewInt(1000_000000),
		10*time.Second, true)
	s.nextBlock()
	cancelMsg := types.MsgCancelMMOrder{Orderer: s.addr(1).String(), PairId: pair.Id, AppId: appID2}
	_, err := s.keeper.CancelMMOrder(s.ctx, &cancelMsg)
	s.Require().NoError(err)
	live := 0
	for _, o := range orders {
		got, ok := s.keeper.GetOrder(s.ctx, appID2, pair.Id, o.Id)
		if ok && got.Status != types.OrderStatusCanceled {
			live++
		}
	}
	if live != 0 {
		s.T().Fatalf("VP-REPRODUCED D1: appID=%d pairID=%d placed=%d still-live-after-cancel=%d", appID2, pair.Id, len(orders), live)
	}
}
