package keeper_test

import (
	sdk "github.com/cosmos/cosmos-sdk/types"
	authtypes "github.com/cosmos/cosmos-sdk/x/auth/types"

	"github.com/comdex-official/comdex/x/vault/types"
)

// D2 (C02, C01): stable-mint creation with zero draw-down fee and different decimal scales must deliver the minted principal
func (s *KeeperTestSuite) TestVPFindingD02() {
	addr1 := s.addr(1)
	appID := s.CreateNewApp("appone")
	in := s.CreateNewAsset("ASSETONE", "uasset1", 1000000)
	out := s.CreateNewAsset("ASSETTWO", "uasset2", 1000000)
	pairID := s.CreateNewPair(addr1, in, out)
	extID := s.CreateNewExtendedVaultPair("CMDX-C", appID, pairID, true, true)
	ext, _ := s.app.AssetKeeper.GetPairsVault(s.ctx, extID)
	ext.DrawDownFee = sdk.ZeroDec()
	s.app.AssetKeeper.SetPairsVault(s.ctx, ext)
	assetOut, _ := s.app.AssetKeeper.GetAsset(s.ctx, out)
	assetOut.Decimals = sdk.NewInt(100000000) // debt asset with 8 decimals, collateral has 6
	s.app.AssetKeeper.SetAsset(s.ctx, assetOut)

	amt := sdk.NewInt(1000000000)
	s.fundAddr(addr1, sdk.NewCoins(sdk.NewCoin("uasset1", amt)))
	userBefore := s.getBalance(addr1, "uasset2").Amount
	msg := types.NewMsgCreateStableMintRequest(addr1, appID, extID, amt)
	_, err := s.msgServer.MsgCreateStableMint(sdk.WrapSDKContext(s.ctx), msg)
	s.Require().NoError(err)
	sv, found := s.keeper.GetStableMintVault(s.ctx, 1)
	s.Require().True(found)
	got := s.getBalance(addr1, "uasset2").Amount.Sub(userBefore)
	stuck := s.app.BankKeeper.GetBalance(s.ctx, authtypes.NewModuleAddress(types.ModuleName), "uasset2").Amount
	if !got.Equal(sv.AmountOut) || !stuck.IsZero() {
		s.T().Fatalf("VP-REPRODUCED D2: recorded principal=%s delivered-to-user=%s left-in-vault-account=%s", sv.AmountOut, got, stuck)
	}
}
