package keeper_test

import (
	sdk "github.com/cosmos/cosmos-sdk/types"
)

// D7 (C20): the bulk reader behind the collector's genesis export must return the stored net-fee records
func (s *KeeperTestSuite) TestVPFindingD07() {
	s.Require().NoError(s.app.CollectorKeeper.SetNetFeeCollectedData(s.ctx, 7, 9, sdk.NewInt(123456)))
	all := s.app.CollectorKeeper.GetAllNetFeeCollectedData(s.ctx)
	ok := false
	for _, r := range all {
		if r.AppId == 7 && r.AssetId == 9 && !r.NetFeesCollected.IsNil() && r.NetFeesCollected.Equal(sdk.NewInt(123456)) {
			ok = true
		}
	}
	if !ok {
		s.T().Fatalf("VP-REPRODUCED D7: stored (app 7, asset 9, 123456); export reads %v", all)
	}
}
