package keeper_test

import (
	authtypes "github.com/cosmos/cosmos-sdk/x/auth/types"

	collectortypes "github.com/comdex-official/comdex/x/collector/types"
)

// D8 (C13): after a vault-initiated second-generation Dutch auction is bid out, the collector's custody of every asset
// must cover the recorded net fees of that asset (the penalty must be booked under the asset it is paid in)
func (s *KeeperTestSuite) TestVPFindingD08() {
	s.TestPlaceMarketBidForVaults() // liquidates two vaults and bids auction 1 out completely
	col := authtypes.NewModuleAddress(collectortypes.ModuleName)
	for asset := uint64(1); asset <= 4; asset++ {
		a, ok := s.app.AssetKeeper.GetAsset(s.ctx, asset)
		if !ok {
			continue
		}
		total := a.Decimals.Sub(a.Decimals) // zero
		for app := uint64(1); app <= 3; app++ {
			if d, ok := s.app.CollectorKeeper.GetNetFeeCollectedData(s.ctx, app, asset); ok {
				total = total.Add(d.NetFeesCollected)
			}
		}
		held := s.app.BankKeeper.GetBalance(s.ctx, col, a.Denom).Amount
		if held.LT(total) {
			s.T().Fatalf("VP-REPRODUCED D8: asset %d (%s): recorded net fees %s but collector custody holds only %s", asset, a.Denom, total, held)
		}
	}
}
