package keeper_test

import (
	tmproto "github.com/cometbft/cometbft/proto/tendermint/types"

	chain "github.com/comdex-official/comdex/app"
	"github.com/comdex-official/comdex/x/rewards"
	"github.com/comdex-official/comdex/x/rewards/types"
)

// D27 (C20): rewards InitGenesis restores the gauge and lend-reward id counters but not the ones of the locker and
// vault external reward programs: after a round trip the next program got id 1 and overwrote the existing program 1.
func (s *KeeperTestSuite) TestVPFindingD27() {
	k := s.app.Rewardskeeper
	k.SetExternalRewardsLockers(s.ctx, types.LockerExternalRewards{Id: 3, AppMappingId: 1, AssetId: 2})
	k.SetExternalRewardsLockersID(s.ctx, 3)
	k.SetExternalRewardVault(s.ctx, types.VaultExternalRewards{Id: 4, AppMappingId: 1, ExtendedPairId: 2})
	k.SetExternalRewardsVaultID(s.ctx, 4)
	g := rewards.ExportGenesis(s.ctx, k)
	fresh := chain.Setup(s.T(), false)
	ctx2 := fresh.BaseApp.NewContext(false, tmproto.Header{})
	rewards.InitGenesis(ctx2, fresh.Rewardskeeper, g)
	if a, b := fresh.Rewardskeeper.GetExternalRewardsLockersID(ctx2), fresh.Rewardskeeper.GetExternalRewardsVaultID(ctx2); a < 3 || b < 4 {
		s.T().Fatalf("VP-REPRODUCED D27: counters after export+import: locker rewards id %d (a program has id 3), vault rewards id %d (a program has id 4)", a, b)
	}
}
