package keeper_test

import (
	tmproto "github.com/cometbft/cometbft/proto/tendermint/types"

	chain "github.com/comdex-official/comdex/app"
	"github.com/comdex-official/comdex/x/auctionsV2"
)

// D24 (C20): auctionsV2 exports its auction id and user bid id counters but InitGenesis dropped them (set 0): on a
// chain started from the export the next auction reused id 1.
func (s *KeeperTestSuite) TestVPFindingD24() {
	k := s.keeper
	k.SetAuctionID(s.ctx, 7)
	k.SetUserBidID(s.ctx, 11)
	g := auctionsV2.ExportGenesis(s.ctx, k)
	s.Require().Equal(uint64(7), g.AuctionId)
	fresh := chain.Setup(s.T(), false)
	ctx2 := fresh.BaseApp.NewContext(false, tmproto.Header{})
	auctionsV2.InitGenesis(ctx2, fresh.NewaucKeeper, *g)
	if a, b := fresh.NewaucKeeper.GetAuctionID(ctx2), fresh.NewaucKeeper.GetUserBidID(ctx2); a != 7 || b != 11 {
		s.T().Fatalf("VP-REPRODUCED D24: counters after export+import: auction id %d (want 7), user bid id %d (want 11)", a, b)
	}
}
