package keeper_test

import (
	sdk "github.com/cosmos/cosmos-sdk/types"

	tmproto "github.com/cometbft/cometbft/proto/tendermint/types"

	chain "github.com/comdex-official/comdex/app"
	"github.com/comdex-official/comdex/x/locker"
	"github.com/comdex-official/comdex/x/locker/types"
)

// D23 (C20): a chain started from the exported locker state must hand out the same next locker id as the old chain.
// Before the fix InitGenesis did not restore the id counter: the first locker created after the round trip got id 1
// and overwrote the existing locker 1.
func (s *KeeperTestSuite) TestVPFindingD23() {
	k := s.app.LockerKeeper
	k.SetLocker(s.ctx, types.Locker{LockerId: 1, Depositor: "cosmos1old", NetBalance: sdk.NewInt(5), ReturnsAccumulated: sdk.ZeroInt(), AppId: 1, AssetDepositId: 1})
	k.SetLocker(s.ctx, types.Locker{LockerId: 2, Depositor: "cosmos1old2", NetBalance: sdk.NewInt(7), ReturnsAccumulated: sdk.ZeroInt(), AppId: 1, AssetDepositId: 1})
	k.SetIDForLocker(s.ctx, 2)
	g := locker.ExportGenesis(s.ctx, k)

	fresh := chain.Setup(s.T(), false)
	ctx2 := fresh.BaseApp.NewContext(false, tmproto.Header{})
	locker.InitGenesis(ctx2, fresh.LockerKeeper, g)
	if got := fresh.LockerKeeper.GetIDForLocker(ctx2); got != 2 {
		s.T().Fatalf("VP-REPRODUCED D23: locker id counter after export+import is %d, want 2 (the next locker would overwrite locker %d)", got, got+1)
	}
}
