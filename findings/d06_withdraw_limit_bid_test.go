package keeper_test

import (
	sdk "github.com/cosmos/cosmos-sdk/types"

	auctionsV2types "github.com/comdex-official/comdex/x/auctionsV2/types"
)

// D6 (C11): a limit-bid withdrawal in a foreign denomination, or of more than the own deposit, must be refused
func (s *KeeperTestSuite) TestVPFindingD06() {
	s.TestDepositLimitBid() // bidder holds a 1_000_000 uasset2 limit bid (collateral 1, debt 2, premium 2)
	bidder := "cosmos1hm7w7dnvdnra78pz9qxysy7u4tuhc3fnpjmyj7"
	// custody also holds coins of other parties: 5_000_000 uasset1 and 5_000_000 uasset2 from a third party
	third := sdk.AccAddress([]byte("third-party-address-"))
	other := sdk.NewCoins(sdk.NewCoin("uasset1", sdk.NewInt(5000000)), sdk.NewCoin("uasset2", sdk.NewInt(5000000)))
	s.fundAddr(third, other)
	s.Require().NoError(s.app.BankKeeper.SendCoinsFromAccountToModule(s.ctx, third, auctionsV2types.ModuleName, other))
	foreign := auctionsV2types.NewMsgWithdrawLimitBid(bidder, 1, 2, sdk.NewInt(2), sdk.NewCoin("uasset1", sdk.NewInt(5000000)))
	s.Require().NoError(foreign.ValidateBasic())
	if _, err := s.auctionMsgServer.MsgWithdrawLimitBid(sdk.WrapSDKContext(s.ctx), foreign); err == nil {
		s.T().Fatalf("VP-REPRODUCED D6: withdrawal of 5000000uasset1 against a 1000000uasset2 deposit was accepted")
	}
	tooMuch := auctionsV2types.NewMsgWithdrawLimitBid(bidder, 1, 2, sdk.NewInt(2), sdk.NewCoin("uasset2", sdk.NewInt(3000000)))
	if _, err := s.auctionMsgServer.MsgWithdrawLimitBid(sdk.WrapSDKContext(s.ctx), tooMuch); err == nil {
		rec, _ := s.keeper.GetUserLimitBidData(s.ctx, 2, 1, sdk.NewInt(2), bidder)
		s.T().Fatalf("VP-REPRODUCED D6: withdrawal of 3000000uasset2 against a 1000000uasset2 deposit was accepted; recorded deposit now %s", rec.DebtToken)
	}
}
