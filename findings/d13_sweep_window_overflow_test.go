package types_test

import (
	"math"
	"testing"

	"github.com/comdex-official/comdex/x/liquidation/types"
)

// D13 (C09, C15): offset+batchSize overflows for admissible batch sizes near 2^63: end < start, and list[start:end] panics
func TestVPFindingD13(t *testing.T) {
	s, e := types.GetSliceStartEndForLiquidations(2, 1, math.MaxInt64)
	if !(0 <= s && s <= e && e <= 2) {
		t.Fatalf("VP-REPRODUCED D13: window (%d,%d) is not a sub-range of a list of length 2", s, e)
	}
}
