package keeper_test

import (
	tmproto "github.com/cometbft/cometbft/proto/tendermint/types"

	chain "github.com/comdex-official/comdex/app"
	"github.com/comdex-official/comdex/x/liquidationsV2"
	"github.com/comdex-official/comdex/x/liquidationsV2/types"
)

// D25 (C20): liquidationsV2 InitGenesis never restored the locked-vault id counter: after a round trip the next
// seizure reused locked-vault id 1.
func (s *KeeperTestSuite) TestVPFindingD25() {
	k := s.liquidationKeeper
	k.SetLockedVault(s.ctx, types.LockedVault{LockedVaultId: 5, AppId: 2, OriginalVaultId: 9, Owner: "cosmos1owner"})
	k.SetLockedVaultID(s.ctx, 5)
	g := liquidationsV2.ExportGenesis(s.ctx, k)
	fresh := chain.Setup(s.T(), false)
	ctx2 := fresh.BaseApp.NewContext(false, tmproto.Header{})
	liquidationsV2.InitGenesis(ctx2, fresh.NewliqKeeper, *g)
	if got := fresh.NewliqKeeper.GetLockedVaultID(ctx2); got < 5 {
		s.T().Fatalf("VP-REPRODUCED D25: locked-vault id counter after export+import is %d, an existing locked vault has id 5", got)
	}
}
