package keeper_test

import (
	abci "github.com/cometbft/cometbft/abci/types"

	liquidationsV2 "github.com/comdex-official/comdex/x/liquidationsV2"
)

// D19 (C15): a vault counter that disagrees with the stored vault list must not make the liquidation hook panic
func (s *KeeperTestSuite) TestVPFindingD19() {
	s.app.VaultKeeper.SetLengthOfVault(s.ctx, 5) // no vault is stored
	func() {
		defer func() {
			if r := recover(); r != nil {
				s.T().Fatalf("VP-REPRODUCED D19: BeginBlocker panicked with counter=5 and 0 stored vaults: %v", r)
			}
		}()
		liquidationsV2.BeginBlocker(s.ctx, abci.RequestBeginBlock{}, s.app.NewliqKeeper)
	}()
}
