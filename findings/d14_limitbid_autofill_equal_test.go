package keeper_test

import (
	sdk "github.com/cosmos/cosmos-sdk/types"

	utils "github.com/comdex-official/comdex/types"
	"github.com/comdex-official/comdex/x/auctionsV2"
)

// D14 (C11): a resting limit bid that equals a Dutch auction's remaining debt is used up by the end-blocker's
// automatic fill: the bidder's record is deleted, so the recorded total of limit bids must fall by the same amount.
// (Fixture of the repository's own TestLimitBid, with the deposit equal to the first auction's remaining debt.)
func (s *KeeperTestSuite) TestVPFindingD14() {
	s.ctx = s.ctx.WithBlockTime(utils.ParseTime("2023-06-01T12:00:00Z"))
	s.TestLiquidateVaults()
	auctions := s.app.NewaucKeeper.GetAuctions(s.ctx)
	s.Require().Equal(len(auctions), 2)
	debt := auctions[0].DebtToken
	bidder := "cosmos1hm7w7dnvdnra78pz9qxysy7u4tuhc3fnpjmyj7"
	k := &s.keeper
	s.Require().NoError(s.liquidationKeeper.MsgAppReserveFundsFn(s.ctx, bidder, 2, 3, sdk.NewCoin("uasset3", sdk.NewInt(5990000))))
	s.Require().NoError(k.DepositLimitAuctionBid(s.ctx, bidder, auctions[0].CollateralAssetId, auctions[0].DebtAssetId, sdk.NewInt(9), debt))
	before, _ := k.GetLimitBidProtocolDataByAssetID(s.ctx, auctions[0].DebtAssetId, auctions[0].CollateralAssetId)
	s.Require().Equal(debt.Amount, before.BidValue)

	s.ctx = s.ctx.WithBlockTime(utils.ParseTime("2023-06-01T12:49:00Z"))
	auctionsV2.BeginBlocker(s.ctx, s.keeper)

	left := sdk.ZeroInt()
	if bids, found := k.GetUserLimitBidDataByPremium(s.ctx, auctions[0].DebtAssetId, auctions[0].CollateralAssetId, sdk.NewInt(9)); found {
		for _, b := range bids {
			left = left.Add(b.DebtToken.Amount)
		}
	}
	after, _ := k.GetLimitBidProtocolDataByAssetID(s.ctx, auctions[0].DebtAssetId, auctions[0].CollateralAssetId)
	s.T().Logf("deposit %s, remaining deposits %s, recorded total %s -> %s, auctions left %d", debt, left, before.BidValue, after.BidValue, len(s.app.NewaucKeeper.GetAuctions(s.ctx)))
	if !after.BidValue.Equal(left) {
		s.T().Fatalf("VP-REPRODUCED D14: recorded total of limit bids is %s, sum of the remaining deposits is %s", after.BidValue, left)
	}
}
