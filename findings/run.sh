#!/bin/bash
# run.sh <test-file> <repo-package-dir>   e.g.  run.sh d03_twa_sum_wrap_test.go x/market/keeper
# Runs a native demonstration test against /repo through a build overlay (nothing is written to /repo).
set -u
cd "$(dirname "$0")"
export GOFLAGS=-mod=mod GOPROXY=off GOSUMDB=off GOTOOLCHAIN=local
F="$1"; PKG="$2"; REPO="${3:-/repo}"
OV=$(mktemp /tmp/vpov.XXXXXX.json)
printf '{"Replace":{"%s/%s/zz_vp_finding_test.go":"%s/%s"}}' "$REPO" "$PKG" "$(pwd)" "$F" > "$OV"
(cd "$REPO" && timeout 900 go test -vet=off -count=1 -overlay "$OV" -run 'TestVPFinding|TestKeeperTestSuite/TestVPFinding' "./$PKG" 2>&1 | tail -15)
RC=${PIPESTATUS[0]}
rm -f "$OV"
exit $RC
