package keeper_test

import (
	tmproto "github.com/cometbft/cometbft/proto/tendermint/types"
	sdk "github.com/cosmos/cosmos-sdk/types"

	chain "github.com/comdex-official/comdex/app"
	"github.com/comdex-official/comdex/x/auction"
	assettypes "github.com/comdex-official/comdex/x/asset/types"
	"github.com/comdex-official/comdex/x/auction/types"
)

// D28 (C20): x/auction InitGenesis imported the lend Dutch auctions from the list of VAULT Dutch auctions: running lend
// auctions were lost on a chain started from an export, vault auctions appeared in the lend-auction table, and the
// auction id counter was taken from the last Dutch auction only.
func (s *KeeperTestSuite) TestVPFindingD28() {
	k := s.app.AuctionKeeper
	s.app.AssetKeeper.SetApp(s.ctx, assettypes.AppData{Id: 2, Name: "app2", ShortName: "a2"}) // the export walks the apps
	coin := sdk.NewCoin("uasset", sdk.NewInt(1))
	dec := sdk.OneDec()
	mk := func(app, id uint64) types.DutchAuction {
		return types.DutchAuction{AuctionId: id, AppId: app, OutflowTokenInitAmount: coin, OutflowTokenCurrentAmount: coin, InflowTokenTargetAmount: coin, InflowTokenCurrentAmount: coin,
			OutflowTokenInitialPrice: dec, OutflowTokenCurrentPrice: dec, OutflowTokenEndPrice: dec, InflowTokenCurrentPrice: dec, LiquidationPenalty: dec}
	}
	k.SetGenDutchAuction(s.ctx, mk(2, 4))
	k.SetGenLendDutchLendAuction(s.ctx, mk(3, 9))
	k.SetGenSurplusAuction(s.ctx, types.SurplusAuction{AuctionId: 6, AppId: 2, SellToken: coin, BuyToken: coin, Bid: coin, BidFactor: dec})
	k.SetAuctionID(s.ctx, 6)
	k.SetLendAuctionID(s.ctx, 9)
	g := auction.ExportGenesis(s.ctx, k)
	s.Require().Equal(1, len(g.DutchLendAuction))

	fresh := chain.Setup(s.T(), false)
	ctx2 := fresh.BaseApp.NewContext(false, tmproto.Header{})
	auction.InitGenesis(ctx2, fresh.AuctionKeeper, g)
	lend := fresh.AuctionKeeper.GetDutchLendAuctions(ctx2, 3)
	if len(lend) != 1 || lend[0].AuctionId != 9 {
		s.T().Fatalf("VP-REPRODUCED D28: lend Dutch auctions of app 3 after export+import: %d (want the one with id 9)", len(lend))
	}
	if len(fresh.AuctionKeeper.GetDutchLendAuctions(ctx2, 2)) != 0 {
		s.T().Fatalf("VP-REPRODUCED D28: a vault Dutch auction was written into the lend-auction table")
	}
	if a, l := fresh.AuctionKeeper.GetAuctionID(ctx2), fresh.AuctionKeeper.GetLendAuctionID(ctx2); a < 6 || l < 9 {
		s.T().Fatalf("VP-REPRODUCED D28: counters after export+import: auction id %d (surplus auction 6 is running), lend auction id %d (lend auction 9 is running)", a, l)
	}
}
