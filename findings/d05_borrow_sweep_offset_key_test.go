package keeper_test

import (
	"github.com/comdex-official/comdex/x/liquidationsV2/types"
)

// D5 (C09 liveness): the second-generation borrow sweep must keep its own sweep position (key 1) and must not
// overwrite the vault sweep's position (key 0).
func (s *KeeperTestSuite) TestVPFindingD05() {
	k := s.app.NewliqKeeper
	k.SetLiquidationOffsetHolder(s.ctx, types.VaultLiquidationsOffsetPrefix, types.LiquidationOffsetHolder{AppId: 0, CurrentOffset: 7})
	s.Require().NoError(k.LiquidateBorrows(s.ctx, 1))
	h, found := k.GetLiquidationOffsetHolder(s.ctx, types.VaultLiquidationsOffsetPrefix, 0)
	s.Require().True(found)
	if h.CurrentOffset != 7 {
		s.T().Fatalf("VP-REPRODUCED D5: the borrow sweep overwrote the vault sweep's offset: 7 -> %d", h.CurrentOffset)
	}
	_, found = k.GetLiquidationOffsetHolder(s.ctx, types.VaultLiquidationsOffsetPrefix, 1)
	if !found {
		s.T().Fatalf("VP-REPRODUCED D5: the borrow sweep did not store its own offset (key 1)")
	}
}
