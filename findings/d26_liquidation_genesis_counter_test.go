package keeper_test

import (
	tmproto "github.com/cometbft/cometbft/proto/tendermint/types"

	chain "github.com/comdex-official/comdex/app"
	"github.com/comdex-official/comdex/x/liquidation"
	"github.com/comdex-official/comdex/x/liquidation/types"
)

// D26 (C20): first-generation liquidation InitGenesis set the locked-vault id counter to the NUMBER of imported
// locked vaults instead of the highest id: with one locked vault of id 5 the counter became 1.
func (s *KeeperTestSuite) TestVPFindingD26() {
	k := s.app.LiquidationKeeper
	k.SetLockedVault(s.ctx, types.LockedVault{LockedVaultId: 5, AppId: 2, OriginalVaultId: 9, Owner: "cosmos1owner"})
	k.SetLockedVaultID(s.ctx, 5)
	g := liquidation.ExportGenesis(s.ctx, k)
	fresh := chain.Setup(s.T(), false)
	ctx2 := fresh.BaseApp.NewContext(false, tmproto.Header{})
	liquidation.InitGenesis(ctx2, fresh.LiquidationKeeper, g)
	if got := fresh.LiquidationKeeper.GetLockedVaultID(ctx2); got < 5 {
		s.T().Fatalf("VP-REPRODUCED D26: locked-vault id counter after export+import is %d, an existing locked vault has id 5", got)
	}
}
