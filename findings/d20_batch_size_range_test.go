package types_test

import (
	"testing"

	"github.com/comdex-official/comdex/x/liquidationsV2/types"
)

// D20 (C09): a batch size that does not fit the sweep's signed arithmetic (>= 2^63 turns negative and the sweep
// silently visits nothing, for ever) must be rejected by parameter validation
func TestVPFindingD20(t *testing.T) {
	p := types.NewParams(uint64(1) << 63)
	if err := p.Validate(); err == nil {
		t.Fatalf("VP-REPRODUCED D20: LiquidationBatchSize 2^63 is accepted; int(batch) is negative and the sweep window is always empty")
	}
}
