package keeper_test

import (
	lendtypes "github.com/comdex-official/comdex/x/lend/types"
	"github.com/comdex-official/comdex/x/liquidationsV2/types"
)

// D22 (C15): one borrow whose liquidation step fails (here: an id in the pool's borrow list without a record) must
// not fail the whole sweep: the remaining borrows are still processed and the sweep position moves on. Before the
// fix the sweep returned at the first failing borrow without storing its position, so it was pinned to the same
// window for ever and the rest of the begin-blocker (surplus / debt) was skipped.
func (s *KeeperTestSuite) TestVPFindingD22() {
	k := s.app.NewliqKeeper
	s.app.LendKeeper.SetAssetStatsByPoolIDAndAssetID(s.ctx, lendtypes.PoolAssetLBMapping{PoolID: 1, AssetID: 1, BorrowIds: []uint64{101, 102}})
	err := k.LiquidateBorrows(s.ctx, 1)
	if err != nil {
		s.T().Fatalf("VP-REPRODUCED D22: a failing borrow failed the whole sweep: %v", err)
	}
	h, found := k.GetLiquidationOffsetHolder(s.ctx, types.VaultLiquidationsOffsetPrefix, 1)
	if !found || h.CurrentOffset != 2 {
		s.T().Fatalf("VP-REPRODUCED D22: the sweep did not move on (found=%v offset=%d, want 2)", found, h.CurrentOffset)
	}
}
