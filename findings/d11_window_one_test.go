package keeper_test

import (
	"testing"

	tmproto "github.com/cometbft/cometbft/proto/tendermint/types"

	chain "github.com/comdex-official/comdex/app"
)

// D11 (C17, C15): window size 1: the second positive sample must not panic and the price must be active with the newest sample
func TestVPFindingD11(t *testing.T) {
	app := chain.Setup(t, false)
	ctx := app.BaseApp.NewContext(false, tmproto.Header{Height: 20})
	k := app.MarketKeeper
	k.UpdatePriceList(ctx, 1, 1, 1000000, 1, 10)
	func() {
		defer func() {
			if r := recover(); r != nil {
				t.Fatalf("VP-REPRODUCED D11: second sample panicked: %v", r)
			}
		}()
		k.UpdatePriceList(ctx, 1, 1, 1000001, 1, 10)
	}()
	twa, _ := k.GetTwa(ctx, 1)
	if !twa.IsPriceActive || twa.Twa != 1000001 {
		t.Fatalf("VP-REPRODUCED D11: active=%v twa=%d", twa.IsPriceActive, twa.Twa)
	}
}
