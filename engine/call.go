package main

import (
	"fmt"
	"go/types"
	"regexp"
	"strings"
	"sync/atomic"

	"golang.org/x/tools/go/ssa"
)

type intrinsic func(e *Exec, s *State, f *Frame, x *ssa.Call, args []Val) ([]*State, bool)

var intrinsics = map[string]intrinsic{}

func reg(name string, h intrinsic) { intrinsics[name] = h }

func ret(f *Frame, x *ssa.Call, v Val) ([]*State, bool) { f.Regs[x] = v; return nil, false }

const comdexPath = "github.com/comdex-official/comdex"

func (e *Exec) sliceElems(s *State, sl SliceV) []Val {
	if sl.ID == 0 {
		return nil
	}
	arr := e.heapGet(s, sl.ID).(ArrV)
	return arr.E[sl.Off : sl.Off+sl.Len]
}

func (e *Exec) newSlice(s *State, el []Val) SliceV {
	if len(el) == 0 {
		return SliceV{}
	}
	p := e.alloc(s, ArrV{append([]Val{}, el...)})
	return SliceV{ID: p.ID, Len: len(el), Cap: len(el)}
}

func (e *Exec) builtin(s *State, f *Frame, x *ssa.Call, b *ssa.Builtin, args []Val) ([]*State, bool) {
	switch b.Name() {
	case "recover":
		if s.Panic != nil && f.IsDefer {
			f.Regs[x] = *s.Panic
			s.Panic = nil
		} else {
			f.Regs[x] = IfaceV{}
		}
		return nil, false
	case "ssa:wrapnilchk":
		f.Regs[x] = args[0]
		return nil, false
	case "len":
		switch a := args[0].(type) {
		case SliceV:
			if a.SymLen != "" {
				f.Regs[x] = Sym{S: a.SymLen}
			} else {
				f.Regs[x] = intc(int64(a.Len))
			}
		case StrV:
			f.Regs[x] = intc(int64(len(a.S)))
		case Ptr: // map
			if a.ID == 0 {
				f.Regs[x] = intc(0)
			} else if m, ok := s.Heap[a.ID].(MapV); ok {
				// distinctness of symbolic keys was decided at insertion
				f.Regs[x] = intc(int64(len(m.K)))
			} else {
				panic("len of pointer")
			}
		case BytesV:
			n := 0
			for _, g := range a.Segs {
				switch g.Kind {
				case "c":
					n += len(g.B)
				case "be64":
					n += 8
				case "addr":
					n += 20
				default:
					panic("len of abstract bytes with a variable-length segment")
				}
			}
			f.Regs[x] = intc(int64(n))
		case SymStr:
			f.Regs[x] = Sym{S: "(strlen " + a.T + ")"}
		default:
			panic(fmt.Sprintf("len of %T", a))
		}
		return nil, false
	case "cap":
		f.Regs[x] = intc(int64(sliceCap(args[0].(SliceV))))
		return nil, false
	case "append":
		return e.appendBuiltin(s, f, x, args)
	case "copy":
		dst, okd := args[0].(SliceV)
		src, oks := args[1].(SliceV)
		if !okd || !oks {
			panic("copy on abstract bytes")
		}
		if dst.SymLen != "" {
			return e.needLen(s, f, x.Call.Args[0], dst), false
		}
		if src.SymLen != "" {
			return e.needLen(s, f, x.Call.Args[1], src), false
		}
		n := dst.Len
		if src.Len < n {
			n = src.Len
		}
		if n > 0 {
			se := append([]Val{}, e.sliceElems(s, src)[:n]...)
			arr := e.heapGet(s, dst.ID).(ArrV)
			el := append([]Val{}, arr.E...)
			copy(el[dst.Off:], se)
			s.Heap[dst.ID] = ArrV{el}
		}
		f.Regs[x] = intc(int64(n))
		return nil, false
	case "delete":
		mp := args[0].(Ptr)
		if mp.ID == 0 {
			return nil, false
		}
		m := s.Heap[mp.ID].(MapV)
		k := args[1]
		del := func(t *State, i int) {
			mm := t.Heap[mp.ID].(MapV)
			nm := MapV{}
			for j := range mm.K {
				if j != i {
					nm.K = append(nm.K, mm.K[j])
					nm.V = append(nm.V, mm.V[j])
				}
			}
			t.Heap[mp.ID] = nm
		}
		var alts []alt
		var conds []string
		for i := range m.K {
			c := e.valEq(m.K[i], k)
			if c == "true" && len(alts) == 0 {
				del(s, i)
				return nil, false
			}
			if c == "false" {
				continue
			}
			ii := i
			alts = append(alts, alt{c, func(t *State) { del(t, ii) }})
			conds = append(conds, tNot(c))
		}
		if len(alts) == 0 {
			return nil, false
		}
		alts = append(alts, alt{tAnd(conds...), func(t *State) {}})
		return e.forkN(s, alts), false
	case "min", "max":
		cur := args[0]
		for _, a := range args[1:] {
			switch c := cur.(type) {
			case Sym:
				op := "<"
				if b.Name() == "max" {
					op = ">"
				}
				cur = Sym{S: tIte(tCmp(op, c.S, a.(Sym).S), c.S, a.(Sym).S)}
			default:
				panic("min/max on " + describeVal(cur))
			}
		}
		f.Regs[x] = cur
		return nil, false
	case "print", "println":
		return nil, false
	}
	panic("builtin " + b.Name())
}

func (e *Exec) appendBuiltin(s *State, f *Frame, x *ssa.Call, args []Val) ([]*State, bool) {
	// byte-ish appends become abstract bytes
	isBytes := func(v Val) bool {
		switch v.(type) {
		case BytesV, SymStr, StrV:
			return true
		}
		return false
	}
	elemIsByte := false
	if st, ok := x.Type().Underlying().(*types.Slice); ok {
		if b, ok := st.Elem().Underlying().(*types.Basic); ok && b.Kind() == types.Uint8 {
			elemIsByte = true
		}
	}
	if elemIsByte && (isBytes(args[0]) || isBytes(args[1])) {
		a0 := e.toBytesV(s, args[0])
		a1 := e.toBytesV(s, args[1])
		f.Regs[x] = BytesV{Segs: append(append([]Seg{}, a0.Segs...), a1.Segs...)}
		return nil, false
	}
	a0, a1 := args[0].(SliceV), args[1].(SliceV)
	if a0.SymLen != "" {
		return e.needLen(s, f, x.Call.Args[0], a0), false
	}
	if a1.SymLen != "" {
		return e.needLen(s, f, x.Call.Args[1], a1), false
	}
	if a1.Len == 0 {
		f.Regs[x] = a0
		return nil, false
	}
	src := append([]Val{}, e.sliceElems(s, a1)...)
	if a0.ID != 0 && a0.Len+a1.Len <= sliceCap(a0) {
		// in place (Go semantics when capacity suffices)
		arr := e.heapGet(s, a0.ID).(ArrV)
		el := append([]Val{}, arr.E...)
		copy(el[a0.Off+a0.Len:], src)
		s.Heap[a0.ID] = ArrV{el}
		f.Regs[x] = SliceV{ID: a0.ID, Off: a0.Off, Len: a0.Len + a1.Len, Cap: sliceCap(a0)}
		return nil, false
	}
	var el []Val
	el = append(el, e.sliceElems(s, a0)...)
	el = append(el, src...)
	f.Regs[x] = e.newSlice(s, el)
	return nil, false
}

func (e *Exec) call(s *State, f *Frame, x *ssa.Call) ([]*State, bool) {
	// merged (maybe-nil) interface operands are resolved before anything inspects them
	if x.Call.IsInvoke() {
		if iv, ok := e.get(s, f, x.Call.Value).(IfaceV); ok && iv.NilIf != "" {
			return e.resolveIface(s, f, x.Call.Value, iv), false
		}
	}
	fn, args := e.callee(s, f, &x.Call)
	if cl0, isCl := fn.(Closure); !isCl || cl0.Fn == nil || cl0.Fn.Blocks == nil || intrinsics[cl0.Fn.String()] != nil || !strings.HasPrefix(cl0.Fn.String(), "(*"+comdexPath) && !strings.HasPrefix(cl0.Fn.String(), "("+comdexPath) && !strings.HasPrefix(cl0.Fn.String(), comdexPath) {
		for i, av := range x.Call.Args {
			if iv, ok := e.get(s, f, av).(IfaceV); ok && iv.NilIf != "" {
				_ = i
				return e.resolveIface(s, f, av, iv), false
			}
		}
	}
	switch fv := fn.(type) {
	case nilInvoke:
		e.runtimePanic(s, "invalid memory address or nil pointer dereference (method "+fv.Method+" on nil interface)")
		return nil, false
	case SwapV:
		i, _ := asConst(args[0].(Sym).S)
		j, _ := asConst(args[1].(Sym).S)
		arr := e.heapGet(s, fv.S.ID).(ArrV)
		el := append([]Val{}, arr.E...)
		a, b := fv.S.Off+int(i.Int64()), fv.S.Off+int(j.Int64())
		el[a], el[b] = el[b], el[a]
		s.Heap[fv.S.ID] = ArrV{el}
		return nil, false
	case WriteCacheV:
		env := s.env()
		e.stats["cache-writes"]++
		env.L[fv.Parent] = mergeLayer(env.L[fv.Parent], env.L[fv.Child])
		return nil, false
	case envInvoke:
		fk, d, handled := e.invokeIntrinsic(s, f, x, args[0], fv.Method, args[1:])
		if !handled {
			panic(fmt.Sprintf("env invoke %T.%s", args[0], fv.Method))
		}
		return fk, d
	case *ssa.Builtin:
		return e.builtin(s, f, x, fv, args)
	}
	cl, ok := fn.(Closure)
	if !ok {
		panic(fmt.Sprintf("call of %T", fn))
	}
	if cl.Fn == nil {
		if e.initMode {
			e.setZeroResult(f, x, x.Call.Signature())
			return nil, false
		}
		e.runtimePanic(s, "call of nil function")
		return nil, false
	}
	name := cl.Fn.String()
	if !e.initMode && (name == "sort.SliceStable" || name == "sort.Slice") {
		sl := args[0].(IfaceV).V.(SliceV)
		if sl.SymLen != "" {
			panic("sort of a havocked slice")
		}
		e.pushCall(s, Closure{Fn: e.vpModel}, []Val{intc(int64(sl.Len)), args[1], SwapV{sl}}, x, false)
		return nil, false
	}
	if h, ok := intrinsics[name]; ok {
		fk, d := h(e, s, f, x, args)
		if e.pendingForks != nil {
			fk, e.pendingForks = e.pendingForks, nil
			return fk, false
		}
		return fk, d
	}
	if !e.initMode && len(e.stubs) > 0 {
		e.mu.Lock()
		_, stubbed := e.stubs[name]
		e.mu.Unlock()
		if stubbed {
			return e.havocCall(s, f, x, cl.Fn, args)
		}
	}
	if strings.HasPrefix(name, "(github.com/cosmos/cosmos-sdk/x/params/types.Subspace).") {
		return e.subspace(s, f, x, cl.Fn.Name(), args)
	}
	comdex := cl.Fn.Pkg != nil && strings.HasPrefix(cl.Fn.Pkg.Pkg.Path(), comdexPath)
	if cl.Fn.Pkg == nil && cl.Fn.Synthetic != "" { // wrappers / bound methods / instantiations
		comdex = true
	}
	allowed := comdex || allowedExternal(name)
	if e.initMode && (cl.Fn.Name() == "init" || strings.HasPrefix(cl.Fn.Name(), "init#")) && !comdex {
		return nil, false
	}
	if !allowed || cl.Fn.Blocks == nil {
		if e.initMode {
			sig := cl.Fn.Signature
			e.setZeroResult(f, x, sig)
			if name == "cosmossdk.io/errors.Register" || name == "cosmossdk.io/errors.RegisterWithGRPCCode" {
				f.Regs[x] = e.alloc(s, OpaqueV{"sentinel"})
			}
			return nil, false
		}
		if strings.HasSuffix(name, ").String") || strings.HasSuffix(name, ").Error") {
			f.Regs[x] = SymStr{T: e.sol.fresh("strfmt", false)}
			return nil, false
		}
		panic("missing intrinsic " + name)
	}
	if comdex && e.regionEnabled(cl.Fn) && len(cl.Fn.Blocks) <= 120 {
		// (very large functions are not merged as a whole: their outcomes are too many and too different; the callees
		// and if-diamonds inside them still are)
		return e.callRegion(s, fn, args, x), false
	}
	if !e.noMerge && !e.initMode && comdex && mergeable(cl.Fn) && !e.regionEnabled(cl.Fn) && e.noRegion {
		if ok := e.tryMergeCall(s, f, x, fn, args); ok {
			return nil, false
		}
	}
	e.pushCall(s, fn, args, x, false)
	return nil, false
}

func (e *Exec) setZeroResult(f *Frame, x *ssa.Call, sig *types.Signature) {
	if sig.Results().Len() == 1 {
		f.Regs[x] = e.zeroOrOpaque(sig.Results().At(0).Type())
	} else if sig.Results().Len() > 1 {
		f.Regs[x] = e.zero(sig.Results())
	}
}

var allowedPrefixes = []string{
	"(github.com/cosmos/cosmos-sdk/types.Coin)",
	"(*github.com/cosmos/cosmos-sdk/types.Coin)",
	"(github.com/cosmos/cosmos-sdk/types.DecCoin)",
	"sort.Search", "sort.Sort", "sort.Stable", "sort.insertionSort", "sort.stable", "sort.symMerge", "sort.rotate", "sort.swapRange", "sort.Strings", "sort.Ints",
	"sort.heapSort", "sort.siftDown", "sort.pdqsort", "sort.(", "(sort.",
	"slices.", "github.com/cosmos/gogoproto/types.",
	"(*github.com/cosmos/gogoproto/types.",
	"github.com/cosmos/cosmos-sdk/types.NewCoins",
	"github.com/cosmos/cosmos-sdk/types.NewDecCoinFromDec",
	"github.com/cosmos/cosmos-sdk/types.NewInt64Coin",
	"github.com/cosmos/cosmos-sdk/types.NewDecCoin",
	"github.com/cosmos/cosmos-sdk/types.WrapServiceResult",
	"github.com/cosmos/cosmos-sdk/types.MustSortJSON",
	"golang.org/x/exp/slices.", "golang.org/x/exp/constraints.",
}

func allowedExternal(name string) bool {
	for _, p := range allowedPrefixes {
		if strings.HasPrefix(name, p) {
			return true
		}
	}
	return false
}

var mergeRe = regexp.MustCompile(`^(Get|Has|Calc|Is|Verify|Module|Store|Check|Price|Pair|Validate)`)

func mergeable(fn *ssa.Function) bool {
	return fn.Signature.Results().Len() > 0 && mergeRe.MatchString(fn.Name()) && !strings.Contains(fn.Name(), "$")
}

func flat(v Val) bool {
	switch x := v.(type) {
	case Sym, BigV, TimeV, StrV, SymStr, FloatV:
		return true
	case StructV:
		for _, f := range x.F {
			if !flat(f) {
				return false
			}
		}
		return true
	case Tuple:
		for _, f := range x {
			if !flat(f) {
				return false
			}
		}
		return true
	case SliceV:
		return true // compared structurally by iteVal (must be identical across sub-paths)
	case Ptr:
		return true
	case IfaceV:
		if x.T == nil {
			return true
		}
		_, isOp := x.V.(OpaqueV)
		if isOp {
			return true
		}
		if p, ok := x.V.(Ptr); ok {
			_ = p
			return true
		}
		return false
	case BytesV:
		return true
	}
	return false
}

func envSize(en *Env) int {
	n := len(en.Supply) + len(en.Events)
	for _, l := range en.L {
		n += len(l.Bank)
		for _, v := range l.Stores {
			for _, ent := range v {
				if !ent.Pre {
					n++
				}
			}
		}
	}
	return n
}

// tryMergeCall explores the callee in isolation; if every path returns normally with mergeable results and no
// store/bank write and no heap write visible to the caller, the caller continues in ONE state with ite-merged results.
func (e *Exec) tryMergeCall(s *State, f *Frame, x *ssa.Call, fn Val, args []Val) bool {
	sub := s.clone()
	sub.Frames = nil
	e.pushCall(sub, fn, args, nil, false)
	base := len(s.PC)
	size0 := envSize(s.env())
	heapMark := int(atomic.LoadInt64(&e.objSeq))
	type res struct {
		st  *State
		val Val
	}
	var outs []res
	work := []*State{sub}
	ok := true
	steps := 0
	for len(work) > 0 && ok {
		cur := work[len(work)-1]
		work = work[:len(work)-1]
		func() {
			defer func() {
				if r := recover(); r != nil {
					ok = false
				}
			}()
			for {
				steps++
				if steps > 300000 {
					ok = false
					return
				}
				if len(cur.Frames) == 1 && !cur.Frames[0].Panicking {
					fr := cur.Frames[0]
					if rt, isRet := fr.Blk.Instrs[fr.Idx].(*ssa.Return); isRet {
						var rv Val
						if len(rt.Results) == 1 {
							rv = e.get(cur, fr, rt.Results[0])
						} else {
							t := make(Tuple, len(rt.Results))
							for i, r := range rt.Results {
								t[i] = e.get(cur, fr, r)
							}
							rv = t
						}
						if !flat(rv) || envSize(cur.env()) != size0 || len(fr.Defers) > 0 {
							ok = false
							return
						}
						// no write to caller-visible heap objects
						for id, v := range cur.Heap {
							if id <= heapMark {
								if ov, had := s.Heap[id]; !had || !sameVal(ov, v) {
									ok = false
									return
								}
							}
						}
						outs = append(outs, res{cur, rv})
						return
					}
				}
				forks, done := e.step(cur)
				if forks != nil {
					work = append(work, forks...)
					return
				}
				if done {
					ok = false
					return
				}
			}
		}()
	}
	if !ok || len(outs) == 0 {
		e.mergeFallback++
		return false
	}
	conds := make([]string, len(outs))
	for i, o := range outs {
		conds[i] = tAnd(stripDefs(o.st.PC[base:])...)
	}
	// if one sub-path is certain under the caller's path condition, take its value without ite
	if len(outs) > 1 {
		for i := range outs {
			if conds[i] != "true" && e.sol.check(s.PC, tNot(conds[i])) == "unsat" {
				outs = []res{outs[i]}
				conds = []string{conds[i]}
				break
			}
		}
	}
	var v Val
	func() {
		defer func() {
			if r := recover(); r != nil {
				ok = false
			}
		}()
		v = outs[len(outs)-1].val
		for i := len(outs) - 2; i >= 0; i-- {
			v = e.iteVal(conds[i], outs[i].val, v)
		}
	}()
	if !ok {
		e.mergeFallback++
		return false
	}
	e.merges++
	// definitions introduced inside the callee (relational divisions) must survive: keep every #def# conjunct guarded by its path
	for i, o := range outs {
		for _, c := range o.st.PC[base:] {
			if strings.HasPrefix(c, "#def#") {
				if len(outs) == 1 {
					s.PC = append(s.PC, c)
				} else {
					s.PC = append(s.PC, "#def#(=> "+conds[i]+" "+c[5:]+")")
				}
			}
		}
	}
	if len(outs) > 1 {
		s.PC = append(s.PC, tOr(conds...))
	} else if conds[0] != "true" {
		s.PC = append(s.PC, conds[0])
	}
	// objects allocated inside the callee and reachable from the result must exist in the caller
	for _, o := range outs {
		for id, hv := range o.st.Heap {
			if id > heapMark {
				if _, had := s.Heap[id]; !had {
					s.Heap[id] = hv
				}
			}
		}
		e.adoptPreState(s, o.st)
	}
	f.Regs[x] = v
	return true
}

func stripDefs(pc []string) []string {
	var out []string
	for _, c := range pc {
		if strings.HasPrefix(c, "#def#") || strings.HasPrefix(c, "#name#") {
			continue
		}
		out = append(out, c)
	}
	return out
}

func sameVal(a, b Val) bool {
	// cheap identity test: heap values are immutable trees, so pointer-equal backing arrays mean unchanged
	switch x := a.(type) {
	case StructV:
		y, ok := b.(StructV)
		return ok && len(x.F) == len(y.F) && (len(x.F) == 0 || &x.F[0] == &y.F[0])
	case ArrV:
		y, ok := b.(ArrV)
		return ok && len(x.E) == len(y.E) && (len(x.E) == 0 || &x.E[0] == &y.E[0])
	case MapV:
		y, ok := b.(MapV)
		return ok && len(x.K) == len(y.K) && (len(x.K) == 0 || (&x.K[0] == &y.K[0] && &x.V[0] == &y.V[0]))
	case RangeV:
		y, ok := b.(RangeV)
		return ok && x.Pos == y.Pos && len(x.K) == len(y.K)
	}
	return fmt.Sprint(a) == fmt.Sprint(b)
}

// havocCall: contract stub "any result of the right types" (amounts non-negative; an error result is nil or non-nil).
// Declared by the harness with zzvp.Stub and listed in the evidence file.
func (e *Exec) havocCall(s *State, f *Frame, x *ssa.Call, fn *ssa.Function, args []Val) ([]*State, bool) {
	e.stats["stub-call:"+fn.String()]++
	// a stub is a function: the same arguments give the same result
	for _, r := range s.Spy {
		if r.Name != fn.String() || len(r.Args) != len(args) {
			continue
		}
		same := true
		for i := range args {
			if i == 1 {
				continue // the context argument
			}
			if !valIdentical(r.Args[i], args[i]) {
				same = false
				break
			}
		}
		if same {
			s.Spy = append(s.Spy, spyRec{Name: fn.String(), Args: args, Res: r.Res})
			if len(r.Res) == 1 {
				top(s).Regs[x] = r.Res[0]
			} else if len(r.Res) > 1 {
				top(s).Regs[x] = r.Res
			}
			return nil, false
		}
	}
	// declared "may panic" (zzvp.StubMayPanic): one more outcome - the callee panics
	var panicArm *State
	e.mu.Lock()
	mayPanic := e.stubPanic[fn.String()]
	e.mu.Unlock()
	if mayPanic {
		pv := e.sol.fresh("stub_panics", true)
		panicArm = s.clone()
		panicArm.PC = append(panicArm.PC, pv)
		panicArm.Spy = append(panicArm.Spy, spyRec{Name: fn.String(), Args: args})
		e.startPanic(panicArm, strPanic("stubbed callee panicked"))
		s.PC = append(s.PC, tNot(pv))
	}
	withPanic := func(fk []*State, done bool) ([]*State, bool) {
		if panicArm == nil {
			return fk, done
		}
		if fk == nil {
			fk = []*State{s}
		}
		return append([]*State{panicArm}, fk...), done
	}
	res := fn.Signature.Results()
	vals := make(Tuple, res.Len())
	errIdx := -1
	for i := 0; i < res.Len(); i++ {
		t := res.At(i).Type()
		if t.String() == "error" {
			errIdx = i
			vals[i] = IfaceV{}
			continue
		}
		vals[i] = e.anyOf(s, t, "stub")
	}
	// declared monotone (zzvp.StubMonotone): against every earlier call that differs only in that argument
	e.mu.Lock()
	mono, isMono := e.stubMono[fn.String()]
	e.mu.Unlock()
	if isMono {
		for _, r := range s.Spy {
			if r.Name != fn.String() || len(r.Args) != len(args) || len(r.Res) != len(vals) {
				continue
			}
			same := true
			for i := range args {
				if i == 1 || i == mono[0] {
					continue
				}
				if !valIdentical(r.Args[i], args[i]) {
					same = false
					break
				}
			}
			if !same {
				continue
			}
			num := func(v Val) (string, bool) {
				switch t := v.(type) {
				case BigV:
					return t.T, !t.Nil
				case Sym:
					return t.S, !t.Bool
				}
				return "", false
			}
			a1, ok1 := num(r.Args[mono[0]])
			a2, ok2 := num(args[mono[0]])
			r1, ok3 := num(r.Res[mono[1]])
			r2, ok4 := num(vals[mono[1]])
			if ok1 && ok2 && ok3 && ok4 {
				s.PC = append(s.PC, "(=> (<= "+a1+" "+a2+") (<= "+r1+" "+r2+"))", "(=> (<= "+a2+" "+a1+") (<= "+r2+" "+r1+"))")
			}
		}
	}
	set := func(st *State, v Tuple) {
		st.Spy = append(st.Spy, spyRec{Name: fn.String(), Args: args, Res: v})
		if len(v) == 1 {
			top(st).Regs[x] = v[0]
		} else if len(v) > 1 {
			top(st).Regs[x] = v
		}
	}
	if errIdx < 0 {
		set(s, vals)
		return withPanic(nil, false)
	}
	okv := e.sol.fresh("stub_ok", true)
	return withPanic(e.fork(s, okv, func(t *State) { set(t, vals) }, func(t *State) {
		ev := make(Tuple, len(vals))
		for i := range ev {
			if i == errIdx {
				ev[i] = errIface()
			} else {
				ev[i] = e.zero(res.At(i).Type())
				if isBig(res.At(i).Type()) {
					ev[i] = BigV{T: "0"}
				}
			}
		}
		set(t, ev)
	}), false)
}
