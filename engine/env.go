// Environment model (abstract bytes, KV store, codec, bank, context, auto-wiring). See DESIGN.md section 4.
package main

import (
	"sync/atomic"
	"fmt"
	"go/types"
	"math/big"
	"strings"

	"golang.org/x/tools/go/ssa"
)

// ----- extra value kinds -----
type Seg struct {
	Kind string // "c" const bytes, "be64" term, "str" string-id term, "addr" address term
	B    []byte
	T    string
}
type BytesV struct {
	Nil  bool
	Segs []Seg
}
type SymStr struct{ T string } // symbolic string id
type TimeV struct{ T string }  // unix seconds term
type CtxV struct {
	ID     int
	Time   string // block time override (WithBlockTime)
	Height string
}
type WriteCacheV struct{ Child, Parent int }
type StoreV struct {
	Name   string
	Ctx    int
	Prefix BytesV
}
type StoreKeyV struct{ Name string }
type CodecV struct{}
type BankV struct{}
type AccountKV struct{}
type OpaqueV struct{ What string }
type MarshaledV struct {
	T    types.Type
	V    Val
	Lazy *LazyRec
}
type LazyRec struct {
	Store string
	Key   BytesV
	Mat   Val // materialised record (nil until first Unmarshal)
	T     types.Type
}

type StoreEntry struct {
	Key     BytesV
	Present string // smt bool term
	Val     Val    // MarshaledV / BytesV
	Pre     bool
}

type BankWrite struct{ Addr, Denom, Val string }

type Event struct {
	Type  string
	Attrs []string
	Guard string // "" = emitted unconditionally on this path; otherwise emitted iff the term holds (after a state merge)
}

// env part of state (deep-copied in clone via cloneEnv)
type Layer struct {
	Stores         map[string][]StoreEntry
	Bank           []BankWrite
	Closed         bool                // closed world: unseen keys are absent (no lazy havoc)
	ClosedPrefixes map[string][]BytesV // per store: prefixes declared closed by the harness (zzvp.ClosePrefix)
}

// closedFor: is the key (or iteration prefix) inside a closed region of the store?
func (l *Layer) closedFor(store string, key BytesV) bool {
	if l.Closed {
		return true
	}
	for _, p := range l.ClosedPrefixes[store] {
		if prefixMatch(p, key) == "true" {
			return true
		}
	}
	return false
}

type IterV struct {
	ID int // heap object holding the iterator state
}
type IterState struct {
	Ents []StoreEntry
	Pos  int
}
type Env struct {
	L          map[int]*Layer
	NextCtx    int
	Supply     []BankWrite // (denom -> supply) write log: Addr unused
	Marked     map[int]int // ctx -> len(Bank) at Mark
	MarkSupply int
	MarkStores map[string]int
	Keepers    map[string]Ptr
	Now        string
	Height     string
	ChainID    Val
	MapReverse bool
	Events     []Event
	FaultAt    string // symbolic fault index ("" = no fault injection)
	Accesses   int
	CtxTime    map[int]string // per-context block time override (WithBlockTime)
	CtxHeight  map[int]string
	faultSkip  bool
}

func (s *State) env() *Env {
	if s.E == nil {
		s.E = &Env{L: map[int]*Layer{0: {Stores: map[string][]StoreEntry{}}}, Keepers: map[string]Ptr{}, Marked: map[int]int{}, CtxTime: map[int]string{}, CtxHeight: map[int]string{}}
	}
	return s.E
}
func copyLayer(l *Layer) *Layer {
	n := &Layer{Stores: make(map[string][]StoreEntry, len(l.Stores)), Closed: l.Closed, ClosedPrefixes: l.ClosedPrefixes}
	for k, v := range l.Stores {
		n.Stores[k] = append([]StoreEntry{}, v...)
	}
	n.Bank = append([]BankWrite{}, l.Bank...)
	return n
}
func mergeLayer(parent, child *Layer) *Layer {
	n := copyLayer(child)
	n.Closed = parent.Closed
	n.ClosedPrefixes = parent.ClosedPrefixes
	return n
}
func cloneEnv(e *Env) *Env {
	if e == nil {
		return nil
	}
	n := &Env{L: make(map[int]*Layer, len(e.L)), Keepers: make(map[string]Ptr, len(e.Keepers)), Now: e.Now, Height: e.Height, NextCtx: e.NextCtx,
		MapReverse: e.MapReverse, ChainID: e.ChainID, FaultAt: e.FaultAt, Accesses: e.Accesses, MarkSupply: e.MarkSupply, faultSkip: e.faultSkip,
		Marked: make(map[int]int, len(e.Marked)), CtxTime: make(map[int]string, len(e.CtxTime)), CtxHeight: make(map[int]string, len(e.CtxHeight))}
	for k, v := range e.L {
		n.L[k] = copyLayer(v)
	}
	for k, v := range e.Keepers {
		n.Keepers[k] = v
	}
	for k, v := range e.Marked {
		n.Marked[k] = v
	}
	for k, v := range e.CtxTime {
		n.CtxTime[k] = v
	}
	for k, v := range e.CtxHeight {
		n.CtxHeight[k] = v
	}
	if e.MarkStores != nil {
		n.MarkStores = map[string]int{}
		for k, v := range e.MarkStores {
			n.MarkStores[k] = v
		}
	}
	n.Supply = append([]BankWrite{}, e.Supply...)
	n.Events = append([]Event{}, e.Events...)
	return n
}

// adoptPreState copies lazily discovered pre-state entries (and clock variables) found on a merged sub-path into s.
func (e *Exec) adoptPreState(s *State, o *State) {
	for cid, l := range o.env().L {
		tl := s.env().L[cid]
		if tl == nil {
			continue
		}
		for name, ents := range l.Stores {
			for _, en := range ents {
				if !en.Pre {
					continue
				}
				have := false
				for _, te := range tl.Stores[name] {
					if te.Pre && te.Present == en.Present {
						have = true
						break
					}
				}
				if !have {
					tl.Stores[name] = append([]StoreEntry{en}, tl.Stores[name]...)
				}
			}
		}
	}
	if o.env().Now != "" {
		s.env().Now = o.env().Now
	}
	if o.env().Height != "" {
		s.env().Height = o.env().Height
	}
	if o.env().ChainID != nil {
		s.env().ChainID = o.env().ChainID
	}
}

func (e *Exec) strID(v Val) string {
	switch x := v.(type) {
	case StrV:
		e.smu.Lock()
		id, ok := e.strIntern[x.S]
		if !ok {
			id = 1000000 + len(e.strIntern)
			e.strIntern[x.S] = id
			e.strNames = append(e.strNames, x.S)
		}
		e.smu.Unlock()
		return fmt.Sprint(id)
	case SymStr:
		return x.T
	}
	panic(fmt.Sprintf("strID of %T", v))
}

// bytes helpers
func (e *Exec) toBytesV(s *State, v Val) BytesV {
	switch x := v.(type) {
	case BytesV:
		return x
	case SliceV:
		if x.ID == 0 {
			return BytesV{Nil: true}
		}
		if x.SymLen != "" {
			panic("havocked byte slice used as key")
		}
		arr := e.heapGet(s, x.ID).(ArrV)
		var b []byte
		for i := 0; i < x.Len; i++ {
			sy := arr.E[x.Off+i].(Sym)
			n, ok := new(big.Int).SetString(sy.S, 10)
			if !ok {
				panic("symbolic byte in key")
			}
			b = append(b, byte(n.Int64()))
		}
		return BytesV{Segs: []Seg{{Kind: "c", B: b}}}
	case StrV:
		return BytesV{Segs: []Seg{{Kind: "c", B: []byte(x.S)}}} // concrete strings are concrete bytes
	case SymStr:
		return BytesV{Segs: []Seg{{Kind: "str", T: e.strID(v)}}}
	case MarshaledV:
		return BytesV{Segs: []Seg{{Kind: "str", T: e.sol.fresh("marshaled", false)}}}
	}
	panic(fmt.Sprintf("toBytesV %T", v))
}

func (e *Exec) bytesToStr(s *State, b BytesV) Val {
	segs := normSegs(b.Segs)
	if len(segs) == 0 {
		return StrV{""}
	}
	if len(segs) == 1 {
		switch segs[0].Kind {
		case "c":
			return StrV{string(segs[0].B)}
		case "str":
			return SymStr{T: segs[0].T}
		case "addr":
			return SymStr{T: "(bytestr " + segs[0].T + ")"}
		}
	}
	return SymStr{T: e.sol.fresh("strconv", false)}
}

func normSegs(in []Seg) []Seg {
	var out []Seg
	for _, g := range in {
		if g.Kind == "c" && len(g.B) == 0 {
			continue
		}
		if g.Kind == "c" && len(out) > 0 && out[len(out)-1].Kind == "c" {
			out[len(out)-1].B = append(append([]byte{}, out[len(out)-1].B...), g.B...)
			continue
		}
		out = append(out, g)
	}
	return out
}
// keyShapeMismatch counts key comparisons decided "different keys" only because a constant string stands where the other
// key has a symbolic string (the byte strings could still be equal). It is a stated limitation of the store model; the
// count is reported per harness (stat "keys-with-constant-vs-symbolic-string-decided-different")
// count is written to the evidence file.
var keyShapeMismatch int64

func hasStrSeg(x []Seg) bool {
	for _, g := range x {
		if g.Kind == "str" {
			return true
		}
	}
	return false
}

// couldStillMatch: x and y have different shapes; could their byte strings be equal because of a symbolic string segment?
// (conservative: the leading constant segments must be compatible - one a prefix of the other)
func couldStillMatch(x, y []Seg) bool {
	if !hasStrSeg(x) && !hasStrSeg(y) {
		return false
	}
	for i := 0; i < len(x) && i < len(y); i++ {
		if x[i].Kind == "c" && y[i].Kind == "c" {
			a, b := string(x[i].B), string(y[i].B)
			if a == b {
				continue
			}
			if strings.HasPrefix(a, b) {
				return i+1 < len(y) && y[i+1].Kind == "str"
			}
			if strings.HasPrefix(b, a) {
				return i+1 < len(x) && x[i+1].Kind == "str"
			}
			return false
		}
		if x[i].Kind == y[i].Kind {
			continue
		}
		return (x[i].Kind == "c" && y[i].Kind == "str") || (x[i].Kind == "str" && y[i].Kind == "c")
	}
	return false
}

func keyEq(a, b BytesV) string {
	x, y := normSegs(a.Segs), normSegs(b.Segs)
	if len(x) != len(y) {
		if couldStillMatch(x, y) {
			atomic.AddInt64(&keyShapeMismatch, 1)
		}
		return "false"
	}
	var conj []string
	for i := range x {
		if x[i].Kind != y[i].Kind {
			if couldStillMatch(x, y) {
				atomic.AddInt64(&keyShapeMismatch, 1)
			}
			return "false"
		}
		if x[i].Kind == "c" {
			if string(x[i].B) != string(y[i].B) {
				return "false"
			}
			continue
		}
		conj = append(conj, tEq(x[i].T, y[i].T))
	}
	return tAnd(conj...)
}

func keyString(k BytesV) string {
	var sb strings.Builder
	for _, g := range normSegs(k.Segs) {
		if g.Kind == "c" {
			fmt.Fprintf(&sb, "c:%x|", g.B)
		} else {
			fmt.Fprintf(&sb, "%s:%s|", g.Kind, g.T)
		}
	}
	return sb.String()
}

var limInt = new(big.Int).Lsh(big.NewInt(1), 256).String()
var limDec = new(big.Int).Lsh(big.NewInt(1), 315).String()

// fresh symbolic value of a Go type (validity: stored amounts are non-negative and within the library's width)
// noteRec: while zzvp.AnyOf runs, every leaf symbol it creates is appended to the path's input sequence (native replay
// rebuilds the same value by walking the type in the same order)
func (e *Exec) noteRec(kind, name string) {
	if e.recSink != nil {
		*e.recSink = append(*e.recSink, kind+":"+name)
	}
}

func (e *Exec) anyOf(s *State, t types.Type, hint string) Val {
	t = types.Unalias(t)
	switch t.String() {
	case "cosmossdk.io/math.Int", "cosmossdk.io/math.LegacyDec":
		n := e.sol.fresh("rec_"+hint, false)
		e.sol.axiom("(and (>= " + n + " 0) (< " + n + " " + limInt + "))")
		e.noteRec("rbig", n)
		return BigV{T: n}
	case "time.Time":
		n := e.sol.fresh("time_"+hint, false)
		e.sol.axiom("(and (>= " + n + " 0) (< " + n + " 4000000000))")
		e.noteRec("rtime", n)
		return TimeV{T: n}
	case "time.Duration":
		n := e.sol.fresh("dur_"+hint, false)
		e.sol.axiom("(and (>= " + n + " 0) (< " + n + " 4000000000000000000))")
		e.noteRec("rdur", n)
		return Sym{S: n}
	case "github.com/cosmos/cosmos-sdk/types.Coin":
		d := SymStr{T: e.sol.fresh("str_denom", false)}
		n := e.sol.fresh("rec_coin_amount", false)
		e.sol.axiom("(and (>= " + n + " 0) (< " + n + " " + limInt + "))")
		e.noteRec("rstr", d.T)
		e.noteRec("rbig", n)
		return StructV{[]Val{d, BigV{T: n}}}
	}
	switch u := t.Underlying().(type) {
	case *types.Basic:
		switch {
		case u.Info()&types.IsBoolean != 0:
			bn := e.sol.fresh("rec_"+hint, true)
			e.noteRec("rbool", bn)
			return Sym{Bool: true, S: bn}
		case u.Info()&types.IsInteger != 0:
			n := e.sol.fresh("rec_"+hint, false)
			bits, signed, _ := intKind(t)
			lo, hi := big.NewInt(0), new(big.Int).Lsh(big.NewInt(1), uint(bits))
			if signed {
				hi = new(big.Int).Lsh(big.NewInt(1), uint(bits-1))
				lo = new(big.Int).Neg(hi)
			}
			e.sol.axiom("(and (>= " + n + " " + smtInt(lo) + ") (< " + n + " " + smtInt(hi) + "))")
			e.noteRec("rint", n)
			return Sym{S: n}
		case u.Info()&types.IsString != 0:
			sn := e.sol.fresh("str_"+hint, false)
			e.noteRec("rstr", sn)
			return SymStr{T: sn}
		case u.Info()&types.IsFloat != 0:
			n := e.sol.fresh("flt_"+hint, false)
			e.noteRec("rflt", n)
			return FloatV{T: "(to_real " + n + ")"}
		}
	case *types.Struct:
		f := make([]Val, u.NumFields())
		for i := range f {
			f[i] = e.anyOf(s, u.Field(i).Type(), u.Field(i).Name())
		}
		return StructV{f}
	case *types.Slice:
		if b, ok := u.Elem().Underlying().(*types.Basic); ok && b.Kind() == types.Uint8 {
			bn := e.sol.fresh("bytes_"+hint, false)
			e.noteRec("rbytes", bn)
			return BytesV{Segs: []Seg{{Kind: "str", T: bn}}}
		}
		L := e.sliceL
		e.noteRec("rcap", fmt.Sprint(L))
		if L == 0 {
			return SliceV{}
		}
		el := make([]Val, L)
		for i := range el {
			el[i] = e.anyOf(s, u.Elem(), fmt.Sprintf("%s_%d", hint, i))
		}
		e.hmu.Lock()
		e.nextGlobalObj++
		id := 1<<30 + e.nextGlobalObj
		e.globalHeap[id] = ArrV{el}
		e.hmu.Unlock()
		n := e.sol.fresh("len_"+hint, false)
		e.sol.axiom(fmt.Sprintf("(and (>= %s 0) (<= %s %d))", n, n, L))
		e.noteRec("rlen", n)
		return SliceV{ID: id, Len: L, Cap: L, SymLen: n}
	case *types.Pointer:
		if _, isStruct := u.Elem().Underlying().(*types.Struct); isStruct && !strings.Contains(u.Elem().String(), "codec/types.Any") {
			inner := e.anyOf(s, u.Elem(), hint)
			e.hmu.Lock()
			e.nextGlobalObj++ // pre-state objects live in a path-independent heap region
			id := 1<<30 + e.nextGlobalObj
			e.globalHeap[id] = inner
			e.hmu.Unlock()
			return Ptr{ID: id}
		}
		return Ptr{}
	case *types.Interface:
		return IfaceV{}
	case *types.Array:
		el := make([]Val, u.Len())
		for i := range el {
			el[i] = e.anyOf(s, u.Elem(), hint)
		}
		return ArrV{el}
	case *types.Map:
		return Ptr{}
	}
	panic("anyOf " + t.String())
}

func errIface() IfaceV {
	return IfaceV{T: types.Universe.Lookup("error").Type(), V: OpaqueV{"err"}}
}

// ----- store -----
// GetResult: symbolic result of store.Get: candidates (cond_i => entry_i), evaluated newest first; last candidate has cond "true".
type GetResult struct {
	Conds []string
	Ents  []StoreEntry
}

func (g GetResult) presentTerm() string {
	t := g.Ents[len(g.Ents)-1].Present
	for i := len(g.Ents) - 2; i >= 0; i-- {
		t = tIte(g.Conds[i], g.Ents[i].Present, t)
	}
	return t
}

func fullKey(st StoreV, key BytesV) BytesV {
	if len(st.Prefix.Segs) == 0 {
		return key
	}
	return BytesV{Segs: append(append([]Seg{}, st.Prefix.Segs...), key.Segs...)}
}

func (e *Exec) storeGet(s *State, st StoreV, key BytesV) GetResult {
	key = fullKey(st, key)
	env := s.env()
	ents := env.L[st.Ctx].Stores[st.Name]
	var g GetResult
	closed := false
	for i := len(ents) - 1; i >= 0; i-- {
		c := keyEq(key, ents[i].Key)
		if c == "false" {
			continue
		}
		if c != "true" {
			if e.sol.check(s.PC, tNot(c)) == "unsat" {
				c = "true" // alias is certain on this path
			} else if e.sol.check(s.PC, c) == "unsat" {
				continue // alias impossible on this path
			}
		}
		g.Conds = append(g.Conds, c)
		g.Ents = append(g.Ents, ents[i])
		if c == "true" {
			closed = true
			break
		}
	}
	if !closed && env.L[st.Ctx].closedFor(st.Name, key) {
		g.Conds = append(g.Conds, "true")
		g.Ents = append(g.Ents, StoreEntry{Key: key, Present: "false", Val: BytesV{Nil: true}})
		closed = true
		e.stats["closed-world-miss:"+st.Name]++
	}
	if !closed {
		mk := st.Name + "|" + keyString(key)
		e.mu.Lock()
		ent, seen := e.lazyMemo[mk]
		if !seen {
			p := e.sol.fresh("present_"+st.Name, true)
			lz := &LazyRec{Store: st.Name, Key: key}
			ent = StoreEntry{Key: key, Present: p, Val: MarshaledV{Lazy: lz}, Pre: true}
			e.lazyMemo[mk] = ent
			e.stats["lazy-records"]++
		}
		e.mu.Unlock()
		// insert the pre-state entry at the FRONT (oldest) so later writes shadow it
		for _, ly := range env.L { // the pre-state is shared by all open context layers
			if !ly.closedFor(st.Name, key) {
				ly.Stores[st.Name] = append([]StoreEntry{ent}, ly.Stores[st.Name]...)
			}
		}
		g.Conds = append(g.Conds, "true")
		g.Ents = append(g.Ents, ent)
	}
	return g
}

// prefixMatch: does key start with prefix (segment-wise)? returns smt condition
func prefixMatch(prefix, key BytesV) string {
	p, k := normSegs(prefix.Segs), normSegs(key.Segs)
	var conj []string
	for i := range p {
		if i >= len(k) {
			return "false"
		}
		if p[i].Kind == "c" {
			if k[i].Kind != "c" || len(k[i].B) < len(p[i].B) || string(k[i].B[:len(p[i].B)]) != string(p[i].B) {
				return "false"
			}
			if len(k[i].B) > len(p[i].B) && i != len(p)-1 {
				return "false"
			}
			continue
		}
		if k[i].Kind != p[i].Kind {
			return "false"
		}
		conj = append(conj, tEq(k[i].T, p[i].T))
	}
	return tAnd(conj...)
}

// liveEntries: closed-world enumeration of the live entries with the prefix, in insertion order of first write.
// Presence and prefix membership must be decidable on the path (otherwise the path is dropped).
func (e *Exec) liveEntries(s *State, st StoreV, prefix BytesV) []StoreEntry {
	prefix = fullKey(st, prefix)
	env := s.env()
	if !env.L[st.Ctx].closedFor(st.Name, prefix) {
		e.drop("iteration over an open (havocked) table: " + st.Name)
	}
	ents := env.L[st.Ctx].Stores[st.Name]
	var out []StoreEntry
	for i, en := range ents {
		c := prefixMatch(prefix, en.Key)
		if c == "false" {
			continue
		}
		if c != "true" {
			if e.sol.check(s.PC, tNot(c)) == "unsat" {
				c = "true"
			} else if e.sol.check(s.PC, c) == "unsat" {
				continue
			} else {
				e.drop("undecided prefix membership in closed table " + st.Name)
			}
		}
		shadowed := false
		for j := i + 1; j < len(ents); j++ {
			q := keyEq(en.Key, ents[j].Key)
			if q == "true" {
				shadowed = true
			} else if q != "false" {
				if e.sol.check(s.PC, tNot(q)) == "unsat" {
					shadowed = true
				} else if e.sol.check(s.PC, q) != "unsat" {
					e.drop("undecided key aliasing in closed table " + st.Name)
				}
			}
		}
		if shadowed || en.Present == "false" {
			continue
		}
		if en.Present != "true" {
			if e.sol.check(s.PC, tNot(en.Present)) == "unsat" {
				// certainly present
			} else if e.sol.check(s.PC, en.Present) == "unsat" {
				continue
			} else {
				e.drop("symbolic presence in closed table " + st.Name)
			}
		}
		out = append(out, en)
	}
	return out
}

// mkIte builds (ite c a b); inside a state merge large results get a fresh name so that terms do not grow exponentially
func (e *Exec) mkIte(c, a, b string, sort string) string {
	if len(a) > 2000000 || len(b) > 2000000 || len(c) > 2000000 {
		big := a
		if len(b) > len(big) {
			big = b
		}
		if len(c) > len(big) {
			big = c
		}
		panic("term explosion: " + big[:300])
	}
	t := tIte(c, a, b)
	if e.nameSink == nil || len(t) < 120 || sort == "Real" {
		return t
	}
	var n string
	if sort == "Bool" {
		n = e.sol.fresh("m", true)
	} else {
		n = e.sol.fresh("m", false)
	}
	*e.nameSink = append(*e.nameSink, "#name#(= "+n+" "+t+")")
	return n
}

func (e *Exec) iteVal(c string, a, b Val) Val {
	switch x := a.(type) {
	case Sym:
		if x.Bool {
			return Sym{Bool: true, S: e.mkIte(c, x.S, b.(Sym).S, "Bool")}
		}
		return Sym{S: e.mkIte(c, x.S, b.(Sym).S, "Int")}
	case BigV:
		y := b.(BigV)
		nx, ny := bigNilTerm(x), bigNilTerm(y)
		if nx == "true" && ny == "true" {
			return BigV{Nil: true, T: "0"}
		}
		nm := e.mkIte(c, nx, ny, "Bool")
		if nm == "false" {
			nm = ""
		}
		return BigV{T: e.mkIte(c, x.T, y.T, "Int"), NilIf: nm}
	case TimeV:
		return TimeV{T: e.mkIte(c, x.T, b.(TimeV).T, "Int")}
	case FloatV:
		return FloatV{T: e.mkIte(c, x.T, b.(FloatV).T, "Real")}
	case StrV, SymStr:
		if xs, ok := a.(StrV); ok {
			if ys, ok := b.(StrV); ok && xs.S == ys.S {
				return a
			}
		}
		return SymStr{T: e.mkIte(c, e.strID(a), e.strID(b), "Int")}
	case StructV:
		y := b.(StructV)
		f := make([]Val, len(x.F))
		for i := range f {
			f[i] = e.iteVal(c, x.F[i], y.F[i])
		}
		return StructV{f}
	case ArrV:
		y := b.(ArrV)
		f := make([]Val, len(x.E))
		for i := range f {
			f[i] = e.iteVal(c, x.E[i], y.E[i])
		}
		return ArrV{f}
	case Tuple:
		y := b.(Tuple)
		f := make(Tuple, len(x))
		for i := range f {
			f[i] = e.iteVal(c, x[i], y[i])
		}
		return f
	case SliceV:
		y := b.(SliceV)
		if x == y {
			return x
		}
		panic("iteVal: differing slices")
	case Ptr:
		y := b.(Ptr)
		if y.ID == x.ID && y.Glob == x.Glob && fmt.Sprint(x.Path) == fmt.Sprint(y.Path) {
			return x
		}
		panic("iteVal: differing pointers")
	case IfaceV:
		y := b.(IfaceV)
		if x.T == nil && y.T == nil {
			return x
		}
		if x.T != nil && y.T != nil && types.Identical(x.T, y.T) {
			if _, isOp := x.V.(OpaqueV); isOp && x.V == y.V {
				return x
			}
			return IfaceV{T: x.T, V: e.iteVal(c, x.V, y.V)}
		}
		panic("iteVal: nil/non-nil interface")
	case BytesV:
		y := b.(BytesV)
		if keyString(x) == keyString(y) && x.Nil == y.Nil {
			return x
		}
		panic("iteVal: differing bytes")
	case OpaqueV:
		if x == b {
			return x
		}
	case Closure:
		if y, ok := b.(Closure); ok && x.Fn == y.Fn && len(x.Binds) == 0 && len(y.Binds) == 0 {
			return x
		}
	case CtxV:
		if x == b {
			return x
		}
	}
	panic(fmt.Sprintf("iteVal %T", a))
}

func (e *Exec) materialise(s *State, lz *LazyRec, want types.Type) Val {
	e.mu.Lock()
	defer e.mu.Unlock()
	if lz.Mat == nil {
		lz.Mat = e.anyOf(s, want, shortType(want))
		lz.T = want
		e.stats["materialised:"+shortType(want)]++
	} else if !types.Identical(lz.T, want) {
		panic("pre-state record read with two different types: " + lz.T.String() + " vs " + want.String())
	}
	return lz.Mat
}

func shortType(t types.Type) string {
	s := t.String()
	if i := strings.LastIndex(s, "/"); i >= 0 {
		s = s[i+1:]
	}
	return s
}

// unmarshalGet resolves a GetResult into a record of the wanted type (ite-merged over aliasing candidates)
func (e *Exec) unmarshalGet(s *State, g GetResult, want types.Type) Val {
	vals := make([]Val, len(g.Ents))
	for i, ent := range g.Ents {
		switch mv := ent.Val.(type) {
		case MarshaledV:
			if mv.Lazy != nil {
				vals[i] = e.materialise(s, mv.Lazy, want)
			} else {
				if !types.Identical(mv.T, want) {
					panic("unmarshal type mismatch " + mv.T.String() + " vs " + want.String())
				}
				vals[i] = mv.V
			}
		default: // deleted entry: value irrelevant (present=false)
			vals[i] = e.zero(want)
		}
	}
	v := vals[len(vals)-1]
	if len(vals) == 1 {
		return v
	}
	// merged over the aliasing candidates; slices of different shape become one slice with a symbolic length
	var names []string
	prev := e.nameSink
	e.nameSink = &names
	defer func() { e.nameSink = prev }()
	for i := len(vals) - 2; i >= 0; i-- {
		v = e.iteValM(g.Conds[i], vals[i], v, s, s, s)
	}
	if prev != nil {
		*prev = append(*prev, names...)
	} else {
		s.PC = append(s.PC, names...)
	}
	return v
}

// ----- bank -----
func (e *Exec) balance(s *State, cid int, addr, denom string) string {
	env := s.env()
	t := "(bal0 " + addr + " " + denom + ")"
	e.noteBal0(addr, denom)
	for _, w := range env.L[cid].Bank {
		c := tAnd(tEq(addr, w.Addr), tEq(denom, w.Denom))
		t = tIte(c, w.Val, t)
	}
	return t
}

// bal0 non-negativity is asserted per referenced (address, denom) pair (no quantifier)
func (e *Exec) noteBal0(addr, denom string) {
	k := "bal0|" + addr + "|" + denom
	e.smu.Lock()
	first := !e.seen[k]
	e.seen[k] = true
	e.smu.Unlock()
	if first {
		e.sol.axiom("(>= (bal0 " + addr + " " + denom + ") 0)")
	}
}
func (e *Exec) setBal(s *State, cid int, addr, denom, val string) {
	n := e.sol.fresh("bal", false)
	s.PC = append(s.PC, "(= "+n+" "+val+")")
	s.env().L[cid].Bank = append(s.env().L[cid].Bank, BankWrite{addr, denom, n})
}
func (e *Exec) supply(s *State, denom string, upto int) string {
	env := s.env()
	t := "(sup0 " + denom + ")"
	for i, w := range env.Supply {
		if upto >= 0 && i >= upto {
			break
		}
		t = tIte(tEq(denom, w.Denom), w.Val, t)
	}
	return t
}
func (e *Exec) moduleAddr(name Val) string { return "(modaddr " + e.strID(name) + ")" }
func addrTerm(v Val) string {
	switch b := v.(type) {
	case BytesV:
		segs := normSegs(b.Segs)
		if len(segs) == 1 && segs[0].Kind == "addr" {
			return segs[0].T
		}
		if len(segs) == 1 && segs[0].Kind == "str" {
			return "(addrofbytes " + segs[0].T + ")"
		}
	}
	if b, ok := v.(BytesV); ok && (b.Nil || len(b.Segs) == 0) {
		return "(- 777777777777)" // the empty address (a failed bech32 parse whose error was ignored): one fixed account nobody owns
	}
	panic(fmt.Sprintf("addrTerm of %T %v", v, v))
}

// coins: SliceV of StructV{denom, amount}
func (e *Exec) coinsList(s *State, v Val) [][2]string {
	sl := v.(SliceV)
	var out [][2]string
	if sl.ID == 0 {
		return out
	}
	if sl.SymLen != "" {
		panic("havocked coins list")
	}
	arr := e.heapGet(s, sl.ID).(ArrV)
	for i := 0; i < sl.Len; i++ {
		c := arr.E[sl.Off+i].(StructV)
		out = append(out, [2]string{e.strID(c.F[0]), c.F[1].(BigV).T})
	}
	return out
}

// transfer returns forks: success (balances moved, nil error) or failure (error, nothing moved)
func (e *Exec) transfer(s *State, x *ssa.Call, cid int, from, to string, coins [][2]string, mint, burn bool) ([]*State, bool) {
	if len(coins) == 0 {
		return ret(top(s), x, IfaceV{})
	}
	var conds []string
	// SDK: coins must be valid (positive amounts) or the send fails
	for _, c := range coins {
		conds = append(conds, tCmp(">", c[1], "0"))
	}
	if !mint {
		// total per denom (two coins of the same denom cannot occur in a valid Coins; distinctness assumed by NewCoins model)
		for _, c := range coins {
			conds = append(conds, tCmp(">=", e.balance(s, cid, from, c[0]), c[1]))
		}
	}
	ok := tAnd(conds...)
	return e.fork(s, ok, func(n *State) {
		for _, c := range coins {
			if !mint {
				e.setBal(n, cid, from, c[0], tSub(e.balance(n, cid, from, c[0]), c[1]))
			}
			if !burn {
				e.setBal(n, cid, to, c[0], tAdd(e.balance(n, cid, to, c[0]), c[1]))
			}
			if mint || burn {
				nv := e.sol.fresh("sup", false)
				cur := e.supply(n, c[0], -1)
				if mint {
					n.PC = append(n.PC, "(= "+nv+" "+tAdd(cur, c[1])+")")
				} else {
					n.PC = append(n.PC, "(= "+nv+" "+tSub(cur, c[1])+")")
				}
				n.env().Supply = append(n.env().Supply, BankWrite{Denom: c[0], Val: nv})
			}
		}
		top(n).Regs[x] = IfaceV{}
	}, func(n *State) {
		top(n).Regs[x] = errIface()
	}), false
}

// ----- auto wiring -----
func (e *Exec) wire(s *State, t types.Type) Ptr {
	key := t.String()
	env := s.env()
	if p, ok := env.Keepers[key]; ok {
		return p
	}
	st := t.Underlying().(*types.Struct)
	p := e.alloc(s, e.zero(t))
	env.Keepers[key] = p
	named := t.(*types.Named)
	modName := moduleOf(named.Obj().Pkg().Path())
	for i := 0; i < st.NumFields(); i++ {
		ft := st.Field(i).Type()
		var v Val
		fts := ft.String()
		switch {
		case strings.HasSuffix(fts, "codec.BinaryCodec") || strings.HasSuffix(fts, "codec.Codec") || strings.HasSuffix(fts, "codec.JSONCodec"):
			v = IfaceV{T: ft, V: CodecV{}}
		case strings.HasSuffix(fts, "store/types.StoreKey"):
			v = IfaceV{T: ft, V: StoreKeyV{modName}}
		case strings.Contains(fts, "params/types.Subspace"):
			v = OpaqueV{"subspace:" + modName}
		case types.Unalias(ft).Underlying() == types.Typ[types.String].Underlying() && (st.Field(i).Name() == "authority"):
			v = StrV{"vp-authority"}
		default:
			if it, ok := ft.Underlying().(*types.Interface); ok {
				lname := strings.ToLower(st.Field(i).Name())
				if strings.Contains(fts, "BankKeeper") || lname == "bank" || lname == "bankkeeper" {
					v = IfaceV{T: ft, V: BankV{}}
				} else if strings.Contains(fts, "AccountKeeper") || lname == "account" || lname == "accountkeeper" {
					v = IfaceV{T: ft, V: AccountKV{}}
				} else if kt := e.findKeeper(it, st.Field(i).Name()); kt != nil {
					kp := e.wire(s, kt)
					v = IfaceV{T: types.NewPointer(kt), V: kp}
				} else {
					v = IfaceV{}
				}
			} else if nt, ok := ft.(*types.Named); ok && nt.Obj().Name() == "Keeper" && nt.Obj().Pkg() != nil && strings.HasPrefix(nt.Obj().Pkg().Path(), comdexPath) {
				kp := e.wire(s, nt)
				v = e.load(s, kp) // by value copy (market keeper holds asset keeper by value)
			} else if pt, ok := ft.(*types.Pointer); ok {
				if nt, ok := pt.Elem().(*types.Named); ok && nt.Obj().Name() == "Keeper" && nt.Obj().Pkg() != nil && strings.HasPrefix(nt.Obj().Pkg().Path(), comdexPath) {
					v = e.wire(s, nt)
				} else {
					v = e.zero(ft)
				}
			} else {
				v = e.zero(ft)
			}
		}
		e.store(s, Ptr{ID: p.ID, Path: []int{i}}, v)
	}
	return p
}
func moduleOf(pkgPath string) string {
	parts := strings.Split(pkgPath, "/")
	for i, p := range parts {
		if p == "x" && i+1 < len(parts) {
			return parts[i+1]
		}
	}
	return pkgPath
}
func (e *Exec) findKeeper(it *types.Interface, fieldName string) types.Type {
	var best types.Type
	bestScore := -1
	for _, p := range e.prog.AllPackages() {
		if !strings.HasPrefix(p.Pkg.Path(), comdexPath+"/x/") || !strings.HasSuffix(p.Pkg.Path(), "/keeper") {
			continue
		}
		m := p.Members["Keeper"]
		if m == nil {
			continue
		}
		tn, ok := m.(*ssa.Type)
		if !ok {
			continue
		}
		if types.Implements(types.NewPointer(tn.Type()), it) {
			score := 0
			mod := strings.ToLower(moduleOf(p.Pkg.Path()))
			fl := strings.ToLower(fieldName)
			if fl == mod {
				score = 20
			} else if strings.Contains(fl, mod) || strings.Contains(mod, fl) {
				score = 10
			}
			if fl == "oracle" && mod == "market" {
				score = 20
			}
			if strings.HasSuffix(mod, "v2") && !strings.HasSuffix(fl, "v2") {
				score -= 5
			}
			if score > bestScore {
				best, bestScore = tn.Type(), score
			}
		}
	}
	return best
}

func bigNilTerm(b BigV) string {
	if b.Nil {
		return "true"
	}
	if b.NilIf == "" {
		return "false"
	}
	return b.NilIf
}
