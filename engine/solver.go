// Solver plumbing: one long-lived incremental z3 per harness run for branch feasibility, and a pool of
// fresh solver processes for final (assertion / witness) queries.
package main

import (
	"bufio"
	"fmt"
	"io"
	"os"
	"os/exec"
	"path/filepath"
	"regexp"
	"strings"
	"sync"
	"sync/atomic"
	"time"
)

type Solver struct {
	sh          *Shared
	cmd         *exec.Cmd
	in          io.WriteCloser
	out         *bufio.Reader
	stack       []string // conjuncts currently asserted, one scope each
	synced      int      // number of entries of the shared declaration log already sent to this process
	queries     int
	dur         time.Duration
	feasTimeout int
	curTimeout  int
	workDir     string
	errors      int
	dead        bool
}

var z3Main = "z3-new"
var z3Cross = "z3"

func newSolver(sh *Shared, workDir string, feasMs int) *Solver {
	cmd := exec.Command(z3Main, "-in")
	in, _ := cmd.StdinPipe()
	out, _ := cmd.StdoutPipe()
	cmd.Stderr = io.Discard
	if err := cmd.Start(); err != nil {
		panic(err)
	}
	s := &Solver{sh: sh, cmd: cmd, in: in, out: bufio.NewReaderSize(out, 1<<16), feasTimeout: feasMs, curTimeout: -1, workDir: workDir}
	return s
}

func (s *Solver) close() {
	if s.in != nil {
		s.in.Close()
	}
	if s.cmd != nil && s.cmd.Process != nil {
		done := make(chan struct{})
		go func() { s.cmd.Wait(); close(done) }()
		select {
		case <-done:
		case <-time.After(2 * time.Second):
			s.cmd.Process.Kill()
		}
	}
}

func (s *Solver) send(x string) {
	if s.dead {
		return
	}
	if _, err := fmt.Fprintln(s.in, x); err != nil {
		s.dead = true
	}
}

// global adds a declaration or axiom to the shared log (every worker's solver and every fresh query sees it)
func (s *Solver) global(x string) {
	s.sh.declMu.Lock()
	s.sh.decls = append(s.sh.decls, x)
	s.sh.declMu.Unlock()
}

func (s *Solver) sync() {
	s.sh.declMu.Lock()
	d := s.sh.decls
	s.sh.declMu.Unlock()
	if s.synced < len(d) {
		s.resetStack() // declarations and axioms are global: they must not sit inside a scope that gets popped
	}
	for ; s.synced < len(d); s.synced++ {
		s.send(d[s.synced])
	}
}

func (s *Solver) fresh(prefix string, boolean bool) string {
	sort := "Int"
	if boolean {
		sort = "Bool"
	}
	s.sh.declMu.Lock()
	s.sh.declN++
	n := fmt.Sprintf("%s_%d", sanitize(prefix), s.sh.declN)
	s.sh.decls = append(s.sh.decls, "(declare-const "+n+" "+sort+")")
	s.sh.declMu.Unlock()
	return n
}

func sanitize(p string) string {
	var sb strings.Builder
	for _, r := range p {
		if r >= 'a' && r <= 'z' || r >= 'A' && r <= 'Z' || r >= '0' && r <= '9' || r == '_' {
			sb.WriteRune(r)
		} else {
			sb.WriteByte('_')
		}
	}
	if sb.Len() == 0 {
		return "v"
	}
	return sb.String()
}

// axiom adds a global fact about the symbolic pre-state (visible to every path and every fresh query).
func (s *Solver) axiom(t string) { s.global("(assert " + t + ")") }

func (s *Solver) readLine() string {
	line, err := s.out.ReadString('\n')
	if err != nil {
		s.dead = true
		return "unknown"
	}
	return strings.TrimSpace(line)
}

// check: branch feasibility under the short cap (unknown = keep the branch). Non-linear definitions (#def#) are
// left out: dropping conjuncts can only keep more branches, so pruning stays sound.
// The solver's assertion stack mirrors the path condition of the state checked last (one scope per conjunct), so a
// check costs only the part of the path condition that differs from the previous check.
func (s *Solver) check(pc []string, extra ...string) string {
	if s.dead {
		return "unknown"
	}
	t0 := time.Now()
	s.sync()
	if s.feasTimeout != s.curTimeout {
		s.send(fmt.Sprintf("(set-option :timeout %d)", s.feasTimeout))
		s.curTimeout = s.feasTimeout
	}
	s.alignStack(pc)
	s.send("(push)")
	for _, p := range extra {
		s.send("(assert " + p + ")")
	}
	s.send("(check-sat)")
	line := s.readLine()
	if strings.HasPrefix(line, "(error") {
		s.errors++
		line = "unknown"
	}
	s.send("(pop)")
	s.queries++
	s.dur += time.Since(t0)
	if line != "sat" && line != "unsat" {
		return "unknown"
	}
	return line
}

// alignStack makes the asserted scopes equal to the feasibility view of pc (#def# conjuncts skipped).
func (s *Solver) alignStack(pc []string) {
	// declarations arrive through sync() at the outermost level only: if new ones are pending we must be at depth 0
	k := 0
	i := 0
	for i < len(pc) && k < len(s.stack) {
		if strings.HasPrefix(pc[i], "#def#") {
			i++
			continue
		}
		if s.stack[k] != pc[i] {
			break
		}
		i++
		k++
	}
	// skip trailing defs
	if k < len(s.stack) {
		s.send(fmt.Sprintf("(pop %d)", len(s.stack)-k))
		s.stack = s.stack[:k]
	}
	for ; i < len(pc); i++ {
		if strings.HasPrefix(pc[i], "#def#") {
			continue
		}
		s.send("(push)")
		s.send("(assert " + strings.TrimPrefix(pc[i], "#name#") + ")")
		s.stack = append(s.stack, pc[i])
	}
}

func (s *Solver) resetStack() {
	if len(s.stack) > 0 {
		s.send(fmt.Sprintf("(pop %d)", len(s.stack)))
		s.stack = nil
	}
}

// ---- fresh-process final queries ----

type FinalQuery struct {
	Harness string
	Kind    string // "assert" | "reach"
	Label   string
	PathID  int
	Batch   []pendingAssert // kind == "batch": the assertions decided together
	BatchPC []string
	expand  func(a pendingAssert) (*FinalQuery, string)
	Choices []int
	InSeq   []string // inputs created on the path, in call order ("kind:name")
	File    string
	Inputs  []string // terms to evaluate when sat
	Result  string   // sat | unsat | unknown
	Cross   string   // result of the second solver ("" = not run)
	Values  map[string]string
	Model   map[string]string
	Dur     time.Duration
	Note    string
}

var finalSem = make(chan struct{}, 16)
var finalSeq int64

var identRe = regexp.MustCompile(`[A-Za-z_][A-Za-z0-9_.$]*`)

// buildQuery renders a self-contained SMT-LIB file: the path condition, the extra conjuncts, and the cone of
// influence of the global log (declarations of the symbols they mention and the pre-state axioms about those symbols).
func (s *Solver) buildQuery(pc []string, extra []string, evals []string) string {
	s.sh.declMu.Lock()
	d := s.sh.decls
	s.sh.declMu.Unlock()
	need := map[string]bool{}
	addSyms := func(t string) {
		for _, m := range identRe.FindAllString(t, -1) {
			need[m] = true
		}
	}
	for _, p := range pc {
		addSyms(p)
	}
	for _, p := range extra {
		addSyms(p)
	}
	for _, p := range evals {
		addSyms(p)
	}
	// axioms: include when they mention a needed symbol (then their other symbols are needed too); iterate to a fixpoint
	type ax struct {
		text string
		syms []string
		in   bool
	}
	var axs []*ax
	for _, g := range d {
		if strings.HasPrefix(g, "(assert ") {
			axs = append(axs, &ax{text: g, syms: identRe.FindAllString(g, -1)})
		}
	}
	for changed := true; changed; {
		changed = false
		for _, a := range axs {
			if a.in {
				continue
			}
			hit := false
			for _, sy := range a.syms {
				if need[sy] && !smtKeyword[sy] {
					hit = true
					break
				}
			}
			if hit {
				a.in = true
				changed = true
				for _, sy := range a.syms {
					need[sy] = true
				}
			}
		}
	}
	var sb strings.Builder
	ai := 0
	for _, g := range d {
		switch {
		case strings.HasPrefix(g, "(declare-const "):
			name := g[len("(declare-const "):]
			if i := strings.IndexByte(name, ' '); i > 0 {
				name = name[:i]
			}
			if !need[name] {
				continue
			}
		case strings.HasPrefix(g, "(assert "):
			in := axs[ai].in
			ai++
			if !in {
				continue
			}
		}
		sb.WriteString(g)
		sb.WriteByte('\n')
	}
	for _, p := range pc {
		sb.WriteString("(assert " + strings.TrimPrefix(strings.TrimPrefix(p, "#def#"), "#name#") + ")\n")
	}
	for _, p := range extra {
		sb.WriteString("(assert " + p + ")\n")
	}
	sb.WriteString("(check-sat)\n")
	for _, t := range evals {
		sb.WriteString("(get-value (" + t + "))\n")
	}
	return sb.String()
}

var smtKeyword = map[string]bool{"assert": true, "and": true, "or": true, "not": true, "ite": true, "let": true, "true": true, "false": true,
	"bal0": true, "sup0": true, "modaddr": true, "addrof": true, "bech32ok": true, "bech32of": true, "strcat": true, "bcat": true, "strofint": true,
	"strofdec": true, "deraddr": true, "deraddr_m": true, "deraddr_k": true, "to_real": true, "mod": true, "div": true, "Int": true, "Bool": true, "Real": true}

func runZ3File(bin, file string, capS int) (verdict string, values map[string]string, hadErr bool) {
	return runZ3FileArgs(bin, file, capS)
}

func runZ3FileArgs(bin, file string, capS int, extra ...string) (verdict string, values map[string]string, hadErr bool) {
	out, _ := exec.Command(bin, append(append([]string{fmt.Sprintf("-T:%d", capS)}, extra...), file)...).Output()
	lines := strings.Split(string(out), "\n")
	verdict = "unknown"
	values = map[string]string{}
	first := true
	var buf strings.Builder
	depth := 0
	for _, ln := range lines {
		t := strings.TrimSpace(ln)
		if t == "" {
			continue
		}
		if first {
			first = false
			switch t {
			case "sat", "unsat":
				verdict = t
			default:
				if strings.HasPrefix(t, "(error") {
					hadErr = true
				}
				verdict = "unknown"
			}
			continue
		}
		if strings.HasPrefix(t, "(error") {
			if verdict == "sat" && strings.Contains(t, "model is not available") {
				continue
			}
			if verdict == "unsat" && (strings.Contains(t, "model is not available") || strings.Contains(t, "get-value")) {
				continue
			}
			hadErr = true
			continue
		}
		buf.WriteString(t + " ")
		depth += strings.Count(t, "(") - strings.Count(t, ")")
		if depth <= 0 {
			parseGetValue(buf.String(), values)
			buf.Reset()
			depth = 0
		}
	}
	return
}

// parseGetValue parses "((term value))" into the map (term -> value, textual)
func parseGetValue(s string, m map[string]string) {
	s = strings.TrimSpace(s)
	if !strings.HasPrefix(s, "((") || !strings.HasSuffix(s, "))") {
		return
	}
	body := s[2 : len(s)-2]
	// split term and value: the term is a balanced s-expression or an atom
	i := 0
	if len(body) == 0 {
		return
	}
	if body[0] == '(' {
		d := 0
		for i = 0; i < len(body); i++ {
			if body[i] == '(' {
				d++
			} else if body[i] == ')' {
				d--
				if d == 0 {
					i++
					break
				}
			}
		}
	} else {
		for i < len(body) && body[i] != ' ' {
			i++
		}
	}
	term := strings.TrimSpace(body[:i])
	val := strings.TrimSpace(body[i:])
	m[term] = normNum(val)
}

func normNum(v string) string {
	v = strings.TrimSpace(v)
	if strings.HasPrefix(v, "(- ") && strings.HasSuffix(v, ")") {
		return "-" + strings.TrimSpace(v[3:len(v)-1])
	}
	return v
}

type FinalPool struct {
	crossMax int // cross-check at most this many queries per (kind,label); 0 = all
	crossN   map[string]int
	onDone   func(q *FinalQuery)
	wg       sync.WaitGroup
	mu       sync.Mutex
	done     []*FinalQuery
	capS     int
	cross    bool
	dir      string
	keepAll  bool
	solverT  int64 // ns
	fallbacks int64 // queries decided by a second attempt (other z3 build / other seed)
}

func (p *FinalPool) submit(q *FinalQuery, text string) {
	n := atomic.AddInt64(&finalSeq, 1)
	q.File = filepath.Join(p.dir, fmt.Sprintf("q%06d_%s_%s.smt2", n, q.Kind, sanitize(q.Label)))
	if err := os.WriteFile(q.File, []byte(text), 0o644); err != nil {
		q.Result = "unknown"
		q.Note = "write failed: " + err.Error()
		p.mu.Lock()
		p.done = append(p.done, q)
		p.mu.Unlock()
		return
	}
	p.wg.Add(1)
	go func() {
		defer p.wg.Done()
		finalSem <- struct{}{}
		defer func() { <-finalSem }()
		t0 := time.Now()
		v, vals, hadErr := runZ3File(z3Main, q.File, p.capS)
		if hadErr {
			v = "unknown"
			q.Note = "solver reported (error"
		}
		if v == "unknown" && !hadErr {
			// undecided within the cap: second attempts before giving up - the other z3 build, then the main one with another
			// random seed (non-linear queries are sensitive to both). A verdict from a fallback is recorded in the note.
			if fv, fvals, ferr := runZ3File(z3Cross, q.File, p.capS); !ferr && fv != "unknown" {
				v, vals = fv, fvals
				q.Note = "decided by " + z3Cross + " after " + z3Main + " did not decide within the cap"
				atomic.AddInt64(&p.fallbacks, 1)
			} else if sv, svals, serr := runZ3FileArgs(z3Main, q.File, p.capS, "smt.random_seed=7", "sat.random_seed=7"); !serr && sv != "unknown" {
				v, vals = sv, svals
				q.Note = "decided by " + z3Main + " with random seed 7 after the default run did not decide within the cap"
				atomic.AddInt64(&p.fallbacks, 1)
			}
		}
		q.Result, q.Values = v, vals
		doCross := p.cross && v != "unknown"
		if doCross && p.crossMax > 0 && v == "unsat" {
			p.mu.Lock()
			if p.crossN == nil {
				p.crossN = map[string]int{}
			}
			k := q.Kind + "|" + q.Label
			if p.crossN[k] >= p.crossMax {
				doCross = false
			} else {
				p.crossN[k]++
			}
			p.mu.Unlock()
		}
		if doCross {
			cc := p.capS
			if cc > 20 {
				cc = 20 // the second opinion is bounded: an unknown from it does not change the verdict
			}
			cv, _, cerr := runZ3File(z3Cross, q.File, cc)
			if cerr {
				cv = "unknown"
			}
			q.Cross = cv
			if cv != "unknown" && cv != v {
				q.Note = "solvers disagree: " + z3Main + "=" + v + " " + z3Cross + "=" + cv
				q.Result = "unknown"
			}
		}
		q.Dur = time.Since(t0)
		atomic.AddInt64(&p.solverT, int64(q.Dur))
		if q.Dur > 15*time.Second && os.Getenv("VP_SLOW") != "" {
			fmt.Fprintf(os.Stderr, "[slow] %.1fs %s %s %s result=%s cross=%s\n", q.Dur.Seconds(), q.Harness, q.Kind, q.Label, q.Result, q.Cross)
		}
		if q.Kind == "batch" && q.Result != "unsat" && q.expand != nil {
			// attribute: one query per assertion of the batch
			for _, a := range q.Batch {
				iq, text := q.expand(a)
				p.submit(iq, text)
			}
		}
		keep := p.keepAll || q.Result == "unknown" || (q.Kind == "assert" && q.Result == "sat")
		if !keep {
			os.Remove(q.File)
		}
		p.mu.Lock()
		p.done = append(p.done, q)
		p.mu.Unlock()
		if p.onDone != nil {
			p.onDone(q)
		}
	}()
}

func (p *FinalPool) wait() []*FinalQuery {
	p.wg.Wait()
	return p.done
}
