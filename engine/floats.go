// Contract stubs for the few floating-point operations the anchored code uses (DESIGN 4.7).
package main

import (
	"golang.org/x/tools/go/ssa"
)

func (e *Exec) decFromFormattedFloat(s *State, f *Frame, x *ssa.Call, sy SymStr) ([]*State, bool) {
	panic("float formatting contract not implemented yet")
}
