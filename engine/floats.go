// Contract stubs for the few floating-point operations the anchored code uses (DESIGN 4.7).
// float64 values are real-valued SMT terms; + - * / are exact real operations (IEEE rounding is not modelled, so only
// sign / zero / coarse-bound claims may be drawn from them - each harness that relies on this says so).
package main

import (
	"fmt"
	"math"
	"math/big"
	"strings"

	"golang.org/x/tools/go/ssa"
)

func (s *Solver) freshReal(prefix string) string {
	s.sh.declMu.Lock()
	s.sh.declN++
	n := fmt.Sprintf("%s_%d", sanitize(prefix), s.sh.declN)
	s.sh.decls = append(s.sh.decls, "(declare-const "+n+" Real)")
	s.sh.declMu.Unlock()
	return n
}

func (e *Exec) decFromFormattedFloat(s *State, f *Frame, x *ssa.Call, sy SymStr) ([]*State, bool) {
	ft := sy.T[len("(fmtfloat18 ") : len(sy.T)-1]
	m := e.sol.fresh("fdec", false)
	// the parsed decimal is within one unit of the 18th place of the formatted float, keeps its sign, and is exact at zero
	scaled := "(* " + ft + " 1000000000000000000.0)"
	s.PC = append(s.PC,
		fmt.Sprintf("(<= (- (to_real %s) %s) 1.0)", m, scaled),
		fmt.Sprintf("(<= (- %s (to_real %s)) 1.0)", scaled, m),
		fmt.Sprintf("(=> (= %s 0.0) (= %s 0))", ft, m),
		fmt.Sprintf("(=> (> %s 0.0) (>= %s 0))", ft, m),
		fmt.Sprintf("(=> (< %s 0.0) (<= %s 0))", ft, m),
		fmt.Sprintf("(and (< %s %s) (> %s (- %s)))", m, limInt, m, limInt))
	e.stats["float-contract:format+parse"]++
	return ret(f, x, Tuple{BigV{T: m}, IfaceV{}})
}

func init() {
	md := "(cosmossdk.io/math.LegacyDec)."
	mustFloat := func(e *Exec, s *State, f *Frame, x *ssa.Call, a []Val) ([]*State, bool) {
		t, ok := e.bigs(s, a[0])
		if !ok {
			return nil, false
		}
		if c, isC := asConst(t[0]); isC {
			r := new(big.Rat).SetFrac(c, new(big.Int).Exp(big.NewInt(10), big.NewInt(18), nil))
			fl, _ := r.Float64()
			rr := new(big.Rat)
			rr.SetFloat64(fl)
			return ret(f, x, FloatV{T: ratTerm(rr)})
		}
		v := "(/ (to_real " + t[0] + ") 1000000000000000000.0)"
		fl := e.sol.freshReal("f64")
		eps := "(* (ite (>= " + v + " 0.0) " + v + " (- " + v + ")) (/ 1.0 4503599627370496.0))"
		s.PC = append(s.PC, fmt.Sprintf("(<= (- %s %s) %s)", fl, v, eps), fmt.Sprintf("(<= (- %s %s) %s)", v, fl, eps),
			fmt.Sprintf("(=> (>= %s 1.0) (>= %s 1.0))", v, fl)) // 1.0 is representable and conversion is monotone
		e.stats["float-contract:MustFloat64"]++
		return ret(f, x, FloatV{T: fl})
	}
	reg(md+"MustFloat64", mustFloat)
	reg(md+"Float64", func(e *Exec, s *State, f *Frame, x *ssa.Call, a []Val) ([]*State, bool) {
		fk, d := mustFloat(e, s, f, x, a)
		if v, ok := f.Regs[x].(FloatV); ok {
			f.Regs[x] = Tuple{v, IfaceV{}}
		}
		return fk, d
	})
	reg("math.Pow", func(e *Exec, s *State, f *Frame, x *ssa.Call, a []Val) ([]*State, bool) {
		bx, by := a[0].(FloatV).T, a[1].(FloatV).T
		p := e.sol.freshReal("pow")
		s.PC = append(s.PC,
			fmt.Sprintf("(=> (= %s 0.0) (= %s 1.0))", by, p),
			fmt.Sprintf("(=> (and (>= %s 1.0) (>= %s 0.0)) (>= %s 1.0))", bx, by, p),
			fmt.Sprintf("(=> (>= %s 0.0) (>= %s 0.0))", bx, p))
		e.stats["float-contract:math.Pow"]++
		return ret(f, x, FloatV{T: p})
	})
	reg("math.Floor", func(e *Exec, s *State, f *Frame, x *ssa.Call, a []Val) ([]*State, bool) {
		v := a[0].(FloatV).T
		q := e.sol.fresh("floor", false)
		s.PC = append(s.PC, fmt.Sprintf("(and (<= (to_real %s) %s) (< %s (+ (to_real %s) 1.0)))", q, v, v, q))
		return ret(f, x, FloatV{T: "(to_real " + q + ")"})
	})
	reg("math.Pow10", func(e *Exec, s *State, f *Frame, x *ssa.Call, a []Val) ([]*State, bool) {
		c, ok := asConst(a[0].(Sym).S)
		if !ok {
			panic("math.Pow10 of a symbolic exponent")
		}
		r := new(big.Rat)
		r.SetFloat64(math.Pow10(int(c.Int64())))
		return ret(f, x, FloatV{T: ratTerm(r)})
	})
	reg("strconv.FormatFloat", func(e *Exec, s *State, f *Frame, x *ssa.Call, a []Val) ([]*State, bool) {
		fm, _ := asConst(a[1].(Sym).S)
		pr, _ := asConst(a[2].(Sym).S)
		if fm == nil || pr == nil || fm.Int64() != 'f' || pr.Int64() != 18 {
			panic("FormatFloat with a format other than ('f', 18)")
		}
		return ret(f, x, SymStr{T: "(fmtfloat18 " + a[0].(FloatV).T + ")"})
	})
	_ = strings.Contains
}
