// The harness vocabulary (package zzvp) as executor intrinsics.
package main

import (
	"fmt"
	"math/big"
	"regexp"
	"strings"

	"golang.org/x/tools/go/ssa"
)

// submitFinal sends a self-contained query (path condition + extra) to the pool of fresh solver processes.
func (e *Exec) submitFinal(s *State, kind, label string, pc []string, extra []string) *FinalQuery {
	q := &FinalQuery{Harness: e.harness, Kind: kind, Label: label, PathID: s.ID, Choices: append([]int{}, s.Choices...), InSeq: append([]string{}, s.InSeq...)}
	e.submitQuery(q, pc, extra)
	return q
}

func (e *Exec) submitQuery(q *FinalQuery, pc []string, extra []string) {
	var evals []string
	e.mu.Lock()
	inputs := e.inputs
	e.mu.Unlock()
	if q.Kind != "batch" {
		body := strings.Join(pc, " ") + " " + strings.Join(extra, " ")
		evals = evalSymbols(body, inputs)
	}
	q.Inputs = evals
	text := e.sol.buildQuery(pc, extra, evals)
	e.mu.Lock()
	e.pending = append(e.pending, q)
	e.mu.Unlock()
	e.pool.submit(q, text)
}

func (e *Exec) newInput(prefix, tag string, boolean bool) string {
	n := e.sol.fresh(prefix, boolean)
	e.mu.Lock()
	e.inputs = append(e.inputs, n)
	e.inputTag = append(e.inputTag, tag)
	e.mu.Unlock()
	return n
}

func init() {
	vp := comdexPath + "/zzvp."
	anyInt := func(tag string, lo, hi *big.Int) intrinsic {
		return func(e *Exec, s *State, f *Frame, x *ssa.Call, a []Val) ([]*State, bool) {
			n := e.newInput("in", tag, false)
			s.InSeq = append(s.InSeq, tag+":"+n)
			e.sol.axiom("(and (>= " + n + " " + smtInt(lo) + ") (<= " + n + " " + smtInt(hi) + "))")
			return ret(f, x, Sym{S: n})
		}
	}
	h63 := new(big.Int).Lsh(big.NewInt(1), 63)
	reg(vp+"AnyUint64", anyInt("uint64", big.NewInt(0), new(big.Int).Sub(pow2_64, big.NewInt(1))))
	reg(vp+"AnyInt64", anyInt("int64", new(big.Int).Neg(h63), new(big.Int).Sub(h63, big.NewInt(1))))
	reg(vp+"AnyInt", anyInt("int", new(big.Int).Neg(h63), new(big.Int).Sub(h63, big.NewInt(1))))
	reg(vp+"AnyUint32", anyInt("uint32", big.NewInt(0), big.NewInt(1<<32-1)))
	reg(vp+"AnyBool", func(e *Exec, s *State, f *Frame, x *ssa.Call, a []Val) ([]*State, bool) {
		n := e.newInput("inb", "bool", true)
		s.InSeq = append(s.InSeq, "bool:"+n)
		return ret(f, x, Sym{Bool: true, S: n})
	})
	anyBig := func(tag string) intrinsic {
		return func(e *Exec, s *State, f *Frame, x *ssa.Call, a []Val) ([]*State, bool) {
			n := e.newInput("inB", tag, false)
			s.InSeq = append(s.InSeq, tag+":"+n)
			e.sol.axiom("(and (< " + n + " " + limInt + ") (> " + n + " (- " + limInt + ")))")
			return ret(f, x, BigV{T: n})
		}
	}
	reg(vp+"AnySdkInt", anyBig("sdkint"))
	reg(vp+"AnyDec", anyBig("dec"))
	reg(vp+"AnyTime", func(e *Exec, s *State, f *Frame, x *ssa.Call, a []Val) ([]*State, bool) {
		n := e.newInput("intime", "time", false)
		s.InSeq = append(s.InSeq, "time:"+n)
		e.sol.axiom("(and (>= " + n + " 0) (< " + n + " 4000000000))")
		return ret(f, x, TimeV{T: n})
	})
	reg(vp+"Assume", func(e *Exec, s *State, f *Frame, x *ssa.Call, a []Val) ([]*State, bool) {
		c := a[0].(Sym).S
		if c == "true" {
			return nil, false
		}
		if c == "false" || e.sol.check(s.PC, c) == "unsat" {
			s.Frames = nil // path infeasible
			s.Reached["<assume-false>"] = true
			return nil, true
		}
		s.PC = append(s.PC, c)
		return nil, false
	})
	reg(vp+"Reach", func(e *Exec, s *State, f *Frame, x *ssa.Call, a []Val) ([]*State, bool) {
		lbl := a[0].(StrV).S
		s.Reached[lbl] = true
		e.stats["reach:"+lbl]++
		// vacuity witness: the path condition at this point must be satisfiable (a few attempts per label)
		e.mu.Lock()
		want := e.reachWanted[lbl] < 12 && !e.reachSat[lbl]
		if want {
			e.reachWanted[lbl]++
		} else if !e.reachSat[lbl] && len(e.reachLater[lbl]) < 600 {
			e.reachLater[lbl] = append(e.reachLater[lbl], &State{ID: s.ID, PC: append([]string{}, s.PC...), Choices: append([]int{}, s.Choices...)})
		}
		e.mu.Unlock()
		if want {
			e.submitFinal(s, "reach", lbl, append([]string{}, s.PC...), nil)
		}
		return nil, false
	})
	reg(vp+"Assert", func(e *Exec, s *State, f *Frame, x *ssa.Call, a []Val) ([]*State, bool) {
		c := a[0].(Sym).S
		lbl := a[1].(StrV).S
		if c == "true" {
			e.stats["assert-trivial:"+lbl]++
			return nil, false
		}
		// assertions are discharged independently of each other (the path continues WITHOUT assuming c); all assertions of
		// a path are put to the solver together when the path ends (flushAsserts) and individually only if that fails
		s.Asserts = append(s.Asserts, pendingAssert{lbl, c})
		return nil, false
	})
	reg(vp+"AssertAndAssume", func(e *Exec, s *State, f *Frame, x *ssa.Call, a []Val) ([]*State, bool) {
		c := a[0].(Sym).S
		lbl := a[1].(StrV).S
		if c != "true" {
			e.submitFinal(s, "assert", lbl, append([]string{}, s.PC...), []string{tNot(c)})
			s.PC = append(s.PC, c)
		}
		return nil, false
	})
	// Choose(n): concrete nondeterministic choice 0..n-1 (grid points, instantiations): forks without solver
	reg(vp+"Choose", func(e *Exec, s *State, f *Frame, x *ssa.Call, a []Val) ([]*State, bool) {
		n, ok := asConst(a[0].(Sym).S)
		if !ok || n.Int64() <= 0 {
			panic("Choose needs a positive constant")
		}
		var res []*State
		for i := int64(0); i < n.Int64(); i++ {
			t := s
			if i < n.Int64()-1 {
				t = s.clone()
			}
			top(t).Regs[x] = intc(i)
			t.Choices = append(t.Choices, int(i))
			res = append(res, t)
		}
		return res, false
	})
	reg(vp+"Thorough", func(e *Exec, s *State, f *Frame, x *ssa.Call, a []Val) ([]*State, bool) {
		return ret(f, x, boolc(e.tier > 0))
	})
	reg(vp+"Seed", func(e *Exec, s *State, f *Frame, x *ssa.Call, a []Val) ([]*State, bool) {
		return ret(f, x, intc(e.seed))
	})
	reg(vp+"Bound", func(e *Exec, s *State, f *Frame, x *ssa.Call, a []Val) ([]*State, bool) {
		name := a[0].(StrV).S
		v, _ := asConst(a[1].(Sym).S)
		switch name {
		case "unwind":
			e.unwind = int(v.Int64())
		case "slice-len":
			e.sliceL = int(v.Int64())
		case "max-paths":
			e.maxPaths = int(v.Int64())
		default:
			panic("unknown bound " + name)
		}
		e.mu.Lock()
		e.boundsUsed[name] = int(v.Int64())
		e.mu.Unlock()
		return nil, false
	})
	reg(vp+"Option", func(e *Exec, s *State, f *Frame, x *ssa.Call, a []Val) ([]*State, bool) {
		switch a[0].(StrV).S {
		case "overflow-as-obligation":
			e.overflowAsObligation = true
		case "no-merge":
			e.noMerge = true
		case "no-region-merge":
			e.noRegion = true
		case "thorough-only":
			// the harness returns at once in the quick tier: its witnesses are reported as not run
		case "havoc-arith":
			e.havocArith = true
		default:
			panic("unknown option " + a[0].(StrV).S)
		}
		e.mu.Lock()
		e.optionsUsed[a[0].(StrV).S] = true
		e.mu.Unlock()
		return nil, false
	})
	reg(vp+"Stub", func(e *Exec, s *State, f *Frame, x *ssa.Call, a []Val) ([]*State, bool) {
		e.mu.Lock()
		e.stubs[a[0].(StrV).S] = true
		e.mu.Unlock()
		return nil, false
	})
	spyCalls := func(s *State, name string) []spyRec {
		var out []spyRec
		for _, r := range s.Spy {
			if r.Name == name {
				out = append(out, r)
			}
		}
		return out
	}
	reg(vp+"SpyCount", func(e *Exec, s *State, f *Frame, x *ssa.Call, a []Val) ([]*State, bool) {
		return ret(f, x, intc(int64(len(spyCalls(s, a[0].(StrV).S)))))
	})
	spyArg := func(s *State, a []Val) Val {
		calls := spyCalls(s, a[0].(StrV).S)
		ci, _ := asConst(a[1].(Sym).S)
		ai, _ := asConst(a[2].(Sym).S)
		if ci == nil || ai == nil || int(ci.Int64()) >= len(calls) || int(ai.Int64()) >= len(calls[ci.Int64()].Args) {
			panic("SpyArg: no such call/argument")
		}
		return calls[ci.Int64()].Args[ai.Int64()]
	}
	reg(vp+"SpyArgZ", func(e *Exec, s *State, f *Frame, x *ssa.Call, a []Val) ([]*State, bool) {
		switch v := spyArg(s, a).(type) {
		case BigV:
			if v.Nil {
				return ret(f, x, BigV{T: "0"})
			}
			return ret(f, x, BigV{T: v.T})
		case Sym:
			return ret(f, x, BigV{T: v.S})
		case StructV:
			// an sdk.Coin argument: its amount
			if len(v.F) == 2 {
				if b, ok := v.F[1].(BigV); ok && !b.Nil {
					return ret(f, x, BigV{T: b.T})
				}
			}
		}
		panic("SpyArgZ: argument is not numeric")
	})
	reg(vp+"SpyArgBool", func(e *Exec, s *State, f *Frame, x *ssa.Call, a []Val) ([]*State, bool) {
		return ret(f, x, spyArg(s, a).(Sym))
	})
	reg(vp+"SpyArgIsCtx", func(e *Exec, s *State, f *Frame, x *ssa.Call, a []Val) ([]*State, bool) {
		c, ok := spyArg(s, a[:3]).(CtxV)
		if !ok {
			panic("SpyArgIsCtx: argument is not a context")
		}
		return ret(f, x, boolc(c.ID == a[3].(CtxV).ID))
	})
	reg(vp+"SpyResZ", func(e *Exec, s *State, f *Frame, x *ssa.Call, a []Val) ([]*State, bool) {
		calls := spyCalls(s, a[0].(StrV).S)
		ci, _ := asConst(a[1].(Sym).S)
		ri, _ := asConst(a[2].(Sym).S)
		switch v := calls[ci.Int64()].Res[ri.Int64()].(type) {
		case BigV:
			if v.Nil {
				return ret(f, x, BigV{T: "0"})
			}
			return ret(f, x, BigV{T: v.T})
		case Sym:
			return ret(f, x, BigV{T: v.S})
		case StructV:
			if len(v.F) == 2 { // an sdk.Coin result: its amount
				if b, ok := v.F[1].(BigV); ok && !b.Nil {
					return ret(f, x, BigV{T: b.T})
				}
			}
		}
		panic("SpyResZ: result is not numeric")
	})
	reg(vp+"SpyErrNil", func(e *Exec, s *State, f *Frame, x *ssa.Call, a []Val) ([]*State, bool) {
		calls := spyCalls(s, a[0].(StrV).S)
		ci, _ := asConst(a[1].(Sym).S)
		r := calls[ci.Int64()].Res
		iv := r[len(r)-1].(IfaceV)
		return ret(f, x, Sym{Bool: true, S: ifaceNilTerm(iv)})
	})
	reg(vp+"StubMayPanic", func(e *Exec, s *State, f *Frame, x *ssa.Call, a []Val) ([]*State, bool) {
		e.mu.Lock()
		e.stubs[a[0].(StrV).S] = true
		e.stubPanic[a[0].(StrV).S] = true
		e.mu.Unlock()
		return nil, false
	})
	reg(vp+"StubMonotone", func(e *Exec, s *State, f *Frame, x *ssa.Call, a []Val) ([]*State, bool) {
		ai, _ := asConst(a[1].(Sym).S)
		ri, _ := asConst(a[2].(Sym).S)
		e.mu.Lock()
		e.stubs[a[0].(StrV).S] = true
		e.stubMono[a[0].(StrV).S] = [2]int{int(ai.Int64()), int(ri.Int64())}
		e.mu.Unlock()
		return nil, false
	})
	reg(vp+"Note", func(e *Exec, s *State, f *Frame, x *ssa.Call, a []Val) ([]*State, bool) {
		e.mu.Lock()
		e.notes[a[0].(StrV).S] = true
		e.mu.Unlock()
		return nil, false
	})
	reg(vp+"Panicked", func(e *Exec, s *State, f *Frame, x *ssa.Call, a []Val) ([]*State, bool) {
		return ret(f, x, boolc(false))
	})
	reg(vp+"StrEq", func(e *Exec, s *State, f *Frame, x *ssa.Call, a []Val) ([]*State, bool) {
		return ret(f, x, Sym{Bool: true, S: e.valEq(a[0], a[1])})
	})
	reg(vp+"IsErrNil", func(e *Exec, s *State, f *Frame, x *ssa.Call, a []Val) ([]*State, bool) {
		return ret(f, x, boolc(a[0].(IfaceV).T == nil))
	})
	boolN := func(op func(...string) string) intrinsic {
		return func(e *Exec, s *State, f *Frame, x *ssa.Call, a []Val) ([]*State, bool) {
			var ts []string
			if sl, ok := a[0].(SliceV); ok && sl.ID != 0 {
				for _, el := range e.sliceElems(s, sl) {
					ts = append(ts, el.(Sym).S)
				}
			}
			return ret(f, x, Sym{Bool: true, S: op(ts...)})
		}
	}
	reg(vp+"And", boolN(tAnd))
	reg(vp+"Or", boolN(tOr))
	reg(vp+"Implies", func(e *Exec, s *State, f *Frame, x *ssa.Call, a []Val) ([]*State, bool) {
		return ret(f, x, Sym{Bool: true, S: tOr(tNot(a[0].(Sym).S), a[1].(Sym).S)})
	})
	reg(vp+"IteZ", func(e *Exec, s *State, f *Frame, x *ssa.Call, a []Val) ([]*State, bool) {
		zt := func(v Val) string {
			b := v.(BigV)
			if b.Nil {
				return "0"
			}
			return b.T
		}
		return ret(f, x, BigV{T: tIte(a[0].(Sym).S, zt(a[1]), zt(a[2]))})
	})
	reg(vp+"IteU", func(e *Exec, s *State, f *Frame, x *ssa.Call, a []Val) ([]*State, bool) {
		return ret(f, x, Sym{S: tIte(a[0].(Sym).S, a[1].(Sym).S, a[2].(Sym).S)})
	})
	// Z: mathematical integers for specifications
	zm := "(" + comdexPath + "/zzvp.Z)."
	zb := func(v Val) string {
		b := v.(BigV)
		if b.Nil {
			return "0"
		}
		return b.T
	}
	z2 := func(op func(a, b string) string) intrinsic {
		return func(e *Exec, s *State, f *Frame, x *ssa.Call, a []Val) ([]*State, bool) {
			return ret(f, x, BigV{T: op(zb(a[0]), zb(a[1]))})
		}
	}
	zc := func(op string) intrinsic {
		return func(e *Exec, s *State, f *Frame, x *ssa.Call, a []Val) ([]*State, bool) {
			if op == "=" {
				return ret(f, x, Sym{Bool: true, S: tEq(zb(a[0]), zb(a[1]))})
			}
			return ret(f, x, Sym{Bool: true, S: tCmp(op, zb(a[0]), zb(a[1]))})
		}
	}
	reg(zm+"Add", z2(tAdd))
	reg(zm+"Sub", z2(tSub))
	reg(zm+"Mul", z2(tMul))
	reg(zm+"Neg", func(e *Exec, s *State, f *Frame, x *ssa.Call, a []Val) ([]*State, bool) {
		return ret(f, x, BigV{T: tNeg(zb(a[0]))})
	})
	reg(zm+"LT", zc("<"))
	reg(zm+"LTE", zc("<="))
	reg(zm+"GT", zc(">"))
	reg(zm+"GTE", zc(">="))
	reg(zm+"Equal", zc("="))
	reg(zm+"IsZero", func(e *Exec, s *State, f *Frame, x *ssa.Call, a []Val) ([]*State, bool) {
		return ret(f, x, Sym{Bool: true, S: tEq(zb(a[0]), "0")})
	})
	reg(zm+"IsNegative", func(e *Exec, s *State, f *Frame, x *ssa.Call, a []Val) ([]*State, bool) {
		return ret(f, x, Sym{Bool: true, S: tCmp("<", zb(a[0]), "0")})
	})
	reg(zm+"IsPositive", func(e *Exec, s *State, f *Frame, x *ssa.Call, a []Val) ([]*State, bool) {
		return ret(f, x, Sym{Bool: true, S: tCmp(">", zb(a[0]), "0")})
	})
	zconv := func(e *Exec, s *State, f *Frame, x *ssa.Call, a []Val) ([]*State, bool) {
		switch v := a[0].(type) {
		case BigV:
			if v.Nil {
				return ret(f, x, BigV{T: "0"}) // the zero value of an absent record counts as 0 in specifications
			}
			if v.NilIf != "" {
				return ret(f, x, BigV{T: tIte(v.NilIf, "0", v.T)})
			}
			return ret(f, x, BigV{T: v.T})
		case Sym:
			return ret(f, x, BigV{T: v.S})
		}
		panic("Z conversion of " + describeVal(a[0]))
	}
	reg(vp+"ZI", zconv)
	reg(vp+"ZD", zconv)
	reg(vp+"ZN", zconv)
	reg(vp+"ZU", zconv)
	reg(vp+"ZS", func(e *Exec, s *State, f *Frame, x *ssa.Call, a []Val) ([]*State, bool) {
		n, ok := new(big.Int).SetString(a[0].(StrV).S, 10)
		if !ok {
			panic("ZS literal")
		}
		return ret(f, x, BigV{T: smtInt(n)})
	})
	reg(vp+"Pow10", func(e *Exec, s *State, f *Frame, x *ssa.Call, a []Val) ([]*State, bool) {
		k, ok := asConst(a[0].(Sym).S)
		if !ok {
			panic("Pow10 of a symbolic exponent")
		}
		return ret(f, x, BigV{T: new(big.Int).Exp(big.NewInt(10), k, nil).String()})
	})
	_ = fmt.Sprint
	_ = strings.Contains
}

func containsSym(body, name string) bool {
	for i := 0; ; {
		j := strings.Index(body[i:], name)
		if j < 0 {
			return false
		}
		k := i + j + len(name)
		if k >= len(body) || body[k] == ' ' || body[k] == ')' {
			return true
		}
		i = k
	}
}

// flushAsserts discharges the assertions collected on a finished path: first all of them in one query
// (pc and not(a1 and ... and an)); if that is not unsat, each one separately so that the failing label is known.
// Every extension of the point where an assertion was stated ends in such a flush (also panicking and dropped paths),
// so the union of the final path conditions covers the path condition at the assertion.
func (e *Exec) flushAsserts(s *State) {
	if len(s.Asserts) == 0 {
		return
	}
	as := s.Asserts
	s.Asserts = nil
	if len(as) == 1 {
		e.submitFinal(s, "assert", as[0].Label, append([]string{}, s.PC...), []string{tNot(as[0].Cond)})
		return
	}
	var conds []string
	for _, a := range as {
		conds = append(conds, a.Cond)
	}
	q := &FinalQuery{Harness: e.harness, Kind: "batch", Batch: as, BatchPC: append([]string{}, s.PC...), Choices: append([]int{}, s.Choices...), InSeq: append([]string{}, s.InSeq...)}
	q.expand = func(a pendingAssert) (*FinalQuery, string) {
		iq := &FinalQuery{Harness: q.Harness, Kind: "assert", Label: a.Label, Choices: q.Choices, InSeq: q.InSeq}
		extra := []string{tNot(a.Cond)}
		e.mu.Lock()
		inputs := e.inputs
		e.pending = append(e.pending, iq)
		e.mu.Unlock()
		body := strings.Join(q.BatchPC, " ") + " " + extra[0]
		evals := evalSymbols(body, inputs)
		iq.Inputs = evals
		return iq, e.sol.buildQuery(q.BatchPC, extra, evals)
	}
	e.submitQuery(q, q.BatchPC, []string{tNot(tAnd(conds...))})
}

var symRe = regexp.MustCompile(`[A-Za-z][A-Za-z0-9_]*_[0-9]+`)

// evalSymbols: the terms to read back from a model: the harness inputs this formula mentions, then the pre-state
// symbols it mentions (record fields, presence flags, clock), capped.
func evalSymbols(body string, inputs []string) []string {
	var out []string
	seen := map[string]bool{}
	for _, in := range inputs {
		if containsSym(body, in) {
			out = append(out, in)
			seen[in] = true
		}
	}
	for _, m := range symRe.FindAllString(body, -1) {
		if seen[m] {
			continue
		}
		seen[m] = true
		switch {
		case strings.HasPrefix(m, "rec_"), strings.HasPrefix(m, "present_"), strings.HasPrefix(m, "str_"), strings.HasPrefix(m, "time_"),
			strings.HasPrefix(m, "len_"), strings.HasPrefix(m, "now_"), strings.HasPrefix(m, "height_"), strings.HasPrefix(m, "stub_"):
			if len(out) < 300 {
				out = append(out, m)
			}
		}
	}
	return out
}
