// The harness vocabulary (package zzvp) as executor intrinsics.
package main

import (
	"fmt"
	"math/big"
	"strings"

	"golang.org/x/tools/go/ssa"
)

// submitFinal sends a self-contained query (path condition + extra) to the pool of fresh solver processes.
func (e *Exec) submitFinal(s *State, kind, label string, pc []string, extra []string) *FinalQuery {
	q := &FinalQuery{Harness: e.harness, Kind: kind, Label: label, PathID: s.ID, Choices: append([]int{}, s.Choices...)}
	var evals []string
	e.mu.Lock()
	inputs := e.inputs
	e.mu.Unlock()
	if kind != "overflow" {
		// only the inputs this path's formula mentions (inputs created on sibling paths are unconstrained here)
		body := strings.Join(pc, " ") + " " + strings.Join(extra, " ")
		for _, in := range inputs {
			if containsSym(body, in) {
				evals = append(evals, in)
			}
		}
	}
	q.Inputs = evals
	text := e.sol.buildQuery(pc, extra, evals)
	e.mu.Lock()
	e.pending = append(e.pending, q)
	e.mu.Unlock()
	e.pool.submit(q, text)
	return q
}

func (e *Exec) newInput(prefix, tag string, boolean bool) string {
	n := e.sol.fresh(prefix, boolean)
	e.mu.Lock()
	e.inputs = append(e.inputs, n)
	e.inputTag = append(e.inputTag, tag)
	e.mu.Unlock()
	return n
}

func init() {
	vp := comdexPath + "/zzvp."
	anyInt := func(tag string, lo, hi *big.Int) intrinsic {
		return func(e *Exec, s *State, f *Frame, x *ssa.Call, a []Val) ([]*State, bool) {
			n := e.newInput("in", tag, false)
			e.sol.axiom("(and (>= " + n + " " + smtInt(lo) + ") (<= " + n + " " + smtInt(hi) + "))")
			return ret(f, x, Sym{S: n})
		}
	}
	h63 := new(big.Int).Lsh(big.NewInt(1), 63)
	reg(vp+"AnyUint64", anyInt("uint64", big.NewInt(0), new(big.Int).Sub(pow2_64, big.NewInt(1))))
	reg(vp+"AnyInt64", anyInt("int64", new(big.Int).Neg(h63), new(big.Int).Sub(h63, big.NewInt(1))))
	reg(vp+"AnyInt", anyInt("int", new(big.Int).Neg(h63), new(big.Int).Sub(h63, big.NewInt(1))))
	reg(vp+"AnyUint32", anyInt("uint32", big.NewInt(0), big.NewInt(1<<32-1)))
	reg(vp+"AnyBool", func(e *Exec, s *State, f *Frame, x *ssa.Call, a []Val) ([]*State, bool) {
		n := e.newInput("inb", "bool", true)
		return ret(f, x, Sym{Bool: true, S: n})
	})
	anyBig := func(tag string) intrinsic {
		return func(e *Exec, s *State, f *Frame, x *ssa.Call, a []Val) ([]*State, bool) {
			n := e.newInput("inB", tag, false)
			e.sol.axiom("(and (< " + n + " " + limInt + ") (> " + n + " (- " + limInt + ")))")
			return ret(f, x, BigV{T: n})
		}
	}
	reg(vp+"AnySdkInt", anyBig("sdkint"))
	reg(vp+"AnyDec", anyBig("dec"))
	reg(vp+"AnyTime", func(e *Exec, s *State, f *Frame, x *ssa.Call, a []Val) ([]*State, bool) {
		n := e.newInput("intime", "time", false)
		e.sol.axiom("(and (>= " + n + " 0) (< " + n + " 4000000000))")
		return ret(f, x, TimeV{T: n})
	})
	reg(vp+"Assume", func(e *Exec, s *State, f *Frame, x *ssa.Call, a []Val) ([]*State, bool) {
		c := a[0].(Sym).S
		if c == "true" {
			return nil, false
		}
		if c == "false" || e.sol.check(s.PC, c) == "unsat" {
			s.Frames = nil // path infeasible
			s.Reached["<assume-false>"] = true
			return nil, true
		}
		s.PC = append(s.PC, c)
		return nil, false
	})
	reg(vp+"Reach", func(e *Exec, s *State, f *Frame, x *ssa.Call, a []Val) ([]*State, bool) {
		lbl := a[0].(StrV).S
		s.Reached[lbl] = true
		e.stats["reach:"+lbl]++
		// vacuity witness: the path condition at this point must be satisfiable (a few attempts per label)
		e.mu.Lock()
		want := e.reachWanted[lbl] < 12 && !e.reachSat[lbl]
		if want {
			e.reachWanted[lbl]++
		}
		e.mu.Unlock()
		if want {
			e.submitFinal(s, "reach", lbl, append([]string{}, s.PC...), nil)
		}
		return nil, false
	})
	reg(vp+"Assert", func(e *Exec, s *State, f *Frame, x *ssa.Call, a []Val) ([]*State, bool) {
		c := a[0].(Sym).S
		lbl := a[1].(StrV).S
		if c == "true" {
			e.stats["assert-trivial:"+lbl]++
			return nil, false
		}
		e.submitFinal(s, "assert", lbl, append([]string{}, s.PC...), []string{tNot(c)})
		// assertions are discharged independently: the path continues WITHOUT assuming c
		return nil, false
	})
	reg(vp+"AssertAndAssume", func(e *Exec, s *State, f *Frame, x *ssa.Call, a []Val) ([]*State, bool) {
		c := a[0].(Sym).S
		lbl := a[1].(StrV).S
		if c != "true" {
			e.submitFinal(s, "assert", lbl, append([]string{}, s.PC...), []string{tNot(c)})
			s.PC = append(s.PC, c)
		}
		return nil, false
	})
	// Choose(n): concrete nondeterministic choice 0..n-1 (grid points, instantiations): forks without solver
	reg(vp+"Choose", func(e *Exec, s *State, f *Frame, x *ssa.Call, a []Val) ([]*State, bool) {
		n, ok := asConst(a[0].(Sym).S)
		if !ok || n.Int64() <= 0 {
			panic("Choose needs a positive constant")
		}
		var res []*State
		for i := int64(0); i < n.Int64(); i++ {
			t := s
			if i < n.Int64()-1 {
				t = s.clone()
			}
			top(t).Regs[x] = intc(i)
			t.Choices = append(t.Choices, int(i))
			res = append(res, t)
		}
		return res, false
	})
	reg(vp+"Thorough", func(e *Exec, s *State, f *Frame, x *ssa.Call, a []Val) ([]*State, bool) {
		return ret(f, x, boolc(e.tier > 0))
	})
	reg(vp+"Seed", func(e *Exec, s *State, f *Frame, x *ssa.Call, a []Val) ([]*State, bool) {
		return ret(f, x, intc(e.seed))
	})
	reg(vp+"Bound", func(e *Exec, s *State, f *Frame, x *ssa.Call, a []Val) ([]*State, bool) {
		name := a[0].(StrV).S
		v, _ := asConst(a[1].(Sym).S)
		switch name {
		case "unwind":
			e.unwind = int(v.Int64())
		case "slice-len":
			e.sliceL = int(v.Int64())
		case "max-paths":
			e.maxPaths = int(v.Int64())
		default:
			panic("unknown bound " + name)
		}
		e.mu.Lock()
		e.boundsUsed[name] = int(v.Int64())
		e.mu.Unlock()
		return nil, false
	})
	reg(vp+"Option", func(e *Exec, s *State, f *Frame, x *ssa.Call, a []Val) ([]*State, bool) {
		switch a[0].(StrV).S {
		case "overflow-as-obligation":
			e.overflowAsObligation = true
		case "no-merge":
			e.noMerge = true
		case "havoc-arith":
			e.havocArith = true
		default:
			panic("unknown option " + a[0].(StrV).S)
		}
		e.mu.Lock()
		e.optionsUsed[a[0].(StrV).S] = true
		e.mu.Unlock()
		return nil, false
	})
	reg(vp+"Note", func(e *Exec, s *State, f *Frame, x *ssa.Call, a []Val) ([]*State, bool) {
		e.mu.Lock()
		e.notes[a[0].(StrV).S] = true
		e.mu.Unlock()
		return nil, false
	})
	reg(vp+"Panicked", func(e *Exec, s *State, f *Frame, x *ssa.Call, a []Val) ([]*State, bool) {
		return ret(f, x, boolc(false))
	})
	reg(vp+"StrEq", func(e *Exec, s *State, f *Frame, x *ssa.Call, a []Val) ([]*State, bool) {
		return ret(f, x, Sym{Bool: true, S: e.valEq(a[0], a[1])})
	})
	reg(vp+"IsErrNil", func(e *Exec, s *State, f *Frame, x *ssa.Call, a []Val) ([]*State, bool) {
		return ret(f, x, boolc(a[0].(IfaceV).T == nil))
	})
	// Z: mathematical integers for specifications
	zm := "(" + comdexPath + "/zzvp.Z)."
	zb := func(v Val) string {
		b := v.(BigV)
		if b.Nil {
			return "0"
		}
		return b.T
	}
	z2 := func(op func(a, b string) string) intrinsic {
		return func(e *Exec, s *State, f *Frame, x *ssa.Call, a []Val) ([]*State, bool) {
			return ret(f, x, BigV{T: op(zb(a[0]), zb(a[1]))})
		}
	}
	zc := func(op string) intrinsic {
		return func(e *Exec, s *State, f *Frame, x *ssa.Call, a []Val) ([]*State, bool) {
			if op == "=" {
				return ret(f, x, Sym{Bool: true, S: tEq(zb(a[0]), zb(a[1]))})
			}
			return ret(f, x, Sym{Bool: true, S: tCmp(op, zb(a[0]), zb(a[1]))})
		}
	}
	reg(zm+"Add", z2(tAdd))
	reg(zm+"Sub", z2(tSub))
	reg(zm+"Mul", z2(tMul))
	reg(zm+"Neg", func(e *Exec, s *State, f *Frame, x *ssa.Call, a []Val) ([]*State, bool) {
		return ret(f, x, BigV{T: tNeg(zb(a[0]))})
	})
	reg(zm+"LT", zc("<"))
	reg(zm+"LTE", zc("<="))
	reg(zm+"GT", zc(">"))
	reg(zm+"GTE", zc(">="))
	reg(zm+"Equal", zc("="))
	reg(zm+"IsZero", func(e *Exec, s *State, f *Frame, x *ssa.Call, a []Val) ([]*State, bool) {
		return ret(f, x, Sym{Bool: true, S: tEq(zb(a[0]), "0")})
	})
	reg(zm+"IsNegative", func(e *Exec, s *State, f *Frame, x *ssa.Call, a []Val) ([]*State, bool) {
		return ret(f, x, Sym{Bool: true, S: tCmp("<", zb(a[0]), "0")})
	})
	reg(zm+"IsPositive", func(e *Exec, s *State, f *Frame, x *ssa.Call, a []Val) ([]*State, bool) {
		return ret(f, x, Sym{Bool: true, S: tCmp(">", zb(a[0]), "0")})
	})
	zconv := func(e *Exec, s *State, f *Frame, x *ssa.Call, a []Val) ([]*State, bool) {
		switch v := a[0].(type) {
		case BigV:
			if v.Nil {
				e.runtimePanic(s, "nil math.Int/LegacyDec in specification")
				return nil, false
			}
			return ret(f, x, BigV{T: v.T})
		case Sym:
			return ret(f, x, BigV{T: v.S})
		}
		panic("Z conversion of " + describeVal(a[0]))
	}
	reg(vp+"ZI", zconv)
	reg(vp+"ZD", zconv)
	reg(vp+"ZN", zconv)
	reg(vp+"ZU", zconv)
	reg(vp+"ZS", func(e *Exec, s *State, f *Frame, x *ssa.Call, a []Val) ([]*State, bool) {
		n, ok := new(big.Int).SetString(a[0].(StrV).S, 10)
		if !ok {
			panic("ZS literal")
		}
		return ret(f, x, BigV{T: smtInt(n)})
	})
	reg(vp+"Pow10", func(e *Exec, s *State, f *Frame, x *ssa.Call, a []Val) ([]*State, bool) {
		k, ok := asConst(a[0].(Sym).S)
		if !ok {
			panic("Pow10 of a symbolic exponent")
		}
		return ret(f, x, BigV{T: new(big.Int).Exp(big.NewInt(10), k, nil).String()})
	})
	_ = fmt.Sprint
	_ = strings.Contains
}

func containsSym(body, name string) bool {
	for i := 0; ; {
		j := strings.Index(body[i:], name)
		if j < 0 {
			return false
		}
		k := i + j + len(name)
		if k >= len(body) || body[k] == ' ' || body[k] == ')' {
			return true
		}
		i = k
	}
}
