// gosym: symbolic executor over go/ssa emitting SMT-LIB2.
package main

import (
	"fmt"
	"go/constant"
	"go/token"
	"go/types"
	"math/big"
	"os"
	"runtime/debug"
	"strings"
	"sync"
	"sync/atomic"

	"golang.org/x/tools/go/ssa"
)

type AssertStat struct {
	Label               string
	Unsat, Sat, Unknown int
	Trivial             int // syntactically true, no query needed
	FirstSat            *FinalQuery
	FirstUnknown        *FinalQuery
	MaxDur              float64
}

// Shared: state of one harness run shared by all exploration workers.
type Shared struct {
	prog    *ssa.Program
	pool    *FinalPool
	harness string
	tier    int // 0 quick, 1 thorough
	seed    int64
	trace   bool
	vpModel *ssa.Function

	declMu sync.Mutex
	decls  []string // declarations and pre-state axioms, in order (append-only)
	declN  int

	mu          sync.Mutex // inputs, lazyMemo, materialisation, reachWanted, pending, notes
	inputs      []string   // input terms in creation order (for counterexample read-back)
	inputTag    []string
	lazyMemo    map[string]StoreEntry
	reachWanted map[string]int
	reachSat    map[string]bool
	stubPanic   map[string]bool // stubs that may also panic (zzvp.StubMayPanic)
	divMemo     map[string][2]string // (numerator|denominator) -> names of quotient and remainder
	reachLater  map[string][]*State // paths that reached a label after the first witness attempts were in flight (tried later if those fail)
	pending     []*FinalQuery
	notes       map[string]bool
	stubs       map[string]bool
	stubMono    map[string][2]int
	boundsUsed  map[string]int
	optionsUsed map[string]bool

	hmu           sync.RWMutex // shared pre-state heap
	globalHeap    map[int]Val
	nextGlobalObj int

	smu       sync.Mutex // string interning, seen-sets
	strIntern map[string]int
	strNames  []string
	seen      map[string]bool

	gmu     sync.RWMutex
	globals map[*ssa.Global]Val

	pathSeq int64
	objSeq  int64

	unwind               int // max symbolic-branch visits per block per frame
	sliceL               int // max length of havocked slices
	maxSteps             int
	maxPaths             int
	noMerge              bool
	havocArith           bool
	overflowAsObligation bool
	noRegion             bool
}

// Exec: one exploration worker (own solver process, own statistics).
type Exec struct {
	*Shared
	sol           *Solver
	stats         map[string]int
	funcs         map[*ssa.Function]bool
	dropped       map[string]int
	merges        int
	mergeFallback int
	initMode      bool
	finishFn      func(outcome)
	pendingForks  []*State
	mergeBase     []string
	recSink       *[]string // set while zzvp.AnyOf havocs a value: leaf symbols in creation order
	mergeMark     int // object ids above this were allocated inside the region being merged
	nameSink      *[]string // during a state merge: definitions of names given to large merged terms
}

func (e *Exec) zero(t types.Type) Val {
	t = types.Unalias(t)
	switch u := t.Underlying().(type) {
	case *types.Basic:
		switch {
		case u.Info()&types.IsBoolean != 0:
			return boolc(false)
		case u.Info()&types.IsInteger != 0:
			return intc(0)
		case u.Info()&types.IsString != 0:
			return StrV{""}
		case u.Info()&types.IsFloat != 0:
			return FloatV{T: "0.0"}
		case u.Kind() == types.UnsafePointer:
			return Ptr{}
		case u.Kind() == types.UntypedNil:
			return IfaceV{}
		}
	case *types.Struct:
		if isBig(t) {
			if strings.HasSuffix(t.String(), "zzvp.Z") {
				return BigV{T: "0"}
			}
			return BigV{Nil: true, T: "0"}
		}
		switch t.String() {
		case "time.Time":
			return TimeV{T: "(- 62135596800)"} // zero time = year 1 in unix seconds
		case "github.com/cosmos/cosmos-sdk/types.Context":
			return CtxV{}
		}
		f := make([]Val, u.NumFields())
		for i := range f {
			f[i] = e.zero(u.Field(i).Type())
		}
		return StructV{f}
	case *types.Pointer:
		return Ptr{}
	case *types.Interface:
		return IfaceV{}
	case *types.Slice:
		return SliceV{}
	case *types.Signature:
		return Closure{}
	case *types.Array:
		el := make([]Val, u.Len())
		for i := range el {
			el[i] = e.zero(u.Elem())
		}
		return ArrV{el}
	case *types.Map, *types.Chan:
		return Ptr{}
	case *types.Tuple:
		tu := make(Tuple, u.Len())
		for i := range tu {
			tu[i] = e.zero(u.At(i).Type())
		}
		return tu
	}
	panic("zero: unsupported type " + t.String())
}

func intKind(t types.Type) (bits int, signed bool, ok bool) {
	b, isB := types.Unalias(t).Underlying().(*types.Basic)
	if !isB {
		return 0, false, false
	}
	switch b.Kind() {
	case types.Int, types.Int64, types.UntypedInt:
		return 64, true, true
	case types.Uint, types.Uint64, types.Uintptr:
		return 64, false, true
	case types.Int32, types.UntypedRune:
		return 32, true, true
	case types.Uint32:
		return 32, false, true
	case types.Int8:
		return 8, true, true
	case types.Uint8:
		return 8, false, true
	case types.Int16:
		return 16, true, true
	case types.Uint16:
		return 16, false, true
	}
	return 0, false, false
}

// wrap normalises an arbitrary integer term into the range of the Go kind t (exact mod-2^k semantics).
func (e *Exec) wrap(t types.Type, term string) string {
	bits, signed, ok := intKind(t)
	if !ok {
		return term
	}
	mod := new(big.Int).Lsh(big.NewInt(1), uint(bits))
	half := new(big.Int).Lsh(big.NewInt(1), uint(bits-1))
	if c, ok := asConst(term); ok {
		r := new(big.Int).Mod(c, mod)
		if signed && r.Cmp(half) >= 0 {
			r.Sub(r, mod)
		}
		return smtInt(r)
	}
	if !signed {
		return fmt.Sprintf("(mod %s %s)", term, mod)
	}
	return fmt.Sprintf("(- (mod (+ %s %s) %s) %s)", term, half, mod, half)
}

// wrap1 normalises a term known to be at most one modulus outside the range (results of + and - on in-range operands).
func (e *Exec) wrap1(t types.Type, term string) string {
	bits, signed, ok := intKind(t)
	if !ok {
		return term
	}
	if _, isC := asConst(term); isC {
		return e.wrap(t, term)
	}
	mod := new(big.Int).Lsh(big.NewInt(1), uint(bits)).String()
	half := new(big.Int).Lsh(big.NewInt(1), uint(bits-1)).String()
	if !signed {
		return fmt.Sprintf("(ite (>= %s %s) (- %s %s) (ite (< %s 0) (+ %s %s) %s))", term, mod, term, mod, term, term, mod, term)
	}
	return fmt.Sprintf("(ite (>= %s %s) (- %s %s) (ite (< %s (- %s)) (+ %s %s) %s))", term, half, term, mod, term, half, term, mod, term)
}

func (e *Exec) constVal(c *ssa.Const) Val {
	if c.Value == nil {
		return e.zero(c.Type())
	}
	switch c.Value.Kind() {
	case constant.Bool:
		return boolc(constant.BoolVal(c.Value))
	case constant.Int:
		if b, ok := types.Unalias(c.Type()).Underlying().(*types.Basic); ok && b.Info()&types.IsFloat != 0 {
			return FloatV{T: c.Value.ExactString() + ".0"}
		}
		bi, _ := new(big.Int).SetString(c.Value.ExactString(), 10)
		return Sym{S: smtInt(bi)}
	case constant.String:
		return StrV{constant.StringVal(c.Value)}
	case constant.Float:
		r, _ := new(big.Rat).SetString(c.Value.ExactString())
		if r == nil {
			panic("float const " + c.String())
		}
		return FloatV{T: ratTerm(r)}
	}
	panic("const kind " + c.String())
}

func ratTerm(r *big.Rat) string {
	n, d := r.Num(), r.Denom()
	neg := n.Sign() < 0
	abs := new(big.Int).Abs(n)
	t := "(/ " + abs.String() + ".0 " + d.String() + ".0)"
	if neg {
		t = "(- " + t + ")"
	}
	return t
}

func (e *Exec) get(st *State, f *Frame, v ssa.Value) Val {
	switch x := v.(type) {
	case *ssa.Const:
		return e.constVal(x)
	case *ssa.Function:
		return Closure{Fn: x}
	case *ssa.Global:
		return Ptr{Glob: x}
	case *ssa.Builtin:
		return x
	}
	r, ok := f.Regs[v]
	if !ok {
		panic(fmt.Sprintf("unbound %s in %s", v.Name(), f.Fn.Name()))
	}
	return r
}

// globals: values written by the (concretely executed) package init functions
func (e *Exec) loadGlobal(g *ssa.Global) Val {
	e.gmu.RLock()
	v0, ok0 := e.globals[g]
	e.gmu.RUnlock()
	if ok0 {
		return v0
	}
	e.gmu.Lock()
	defer e.gmu.Unlock()
	if v, ok := e.globals[g]; ok {
		return v
	}
	// function-valued globals of non-comdex packages (sdk.ZeroInt = sdkmath.ZeroInt ...): static scan of the package init
	if _, isFn := g.Type().(*types.Pointer).Elem().Underlying().(*types.Signature); isFn && g.Pkg != nil {
		if initFn := g.Pkg.Func("init"); initFn != nil {
			for _, b := range initFn.Blocks {
				for _, in := range b.Instrs {
					if st, ok := in.(*ssa.Store); ok {
						if gg, ok := st.Addr.(*ssa.Global); ok {
							if fn, ok := st.Val.(*ssa.Function); ok {
								e.globals[gg] = Closure{Fn: fn}
							}
						}
					}
				}
			}
		}
		if v, ok := e.globals[g]; ok {
			return v
		}
	}
	v := e.zero(g.Type().(*types.Pointer).Elem())
	e.globals[g] = v
	return v
}

func (e *Exec) heapGet(st *State, id int) Val {
	v := st.Heap[id]
	if v == nil && id >= 1<<30 {
		e.hmu.RLock()
		v = e.globalHeap[id]
		e.hmu.RUnlock()
	}
	return v
}

func (e *Exec) load(st *State, p Ptr) Val {
	var v Val
	if p.Glob != nil {
		v = e.loadGlobal(p.Glob)
	} else {
		if p.ID == 0 {
			panic("nil deref")
		}
		v = e.heapGet(st, p.ID)
	}
	for _, i := range p.Path {
		switch x := v.(type) {
		case StructV:
			v = x.F[i]
		case ArrV:
			v = x.E[i]
		default:
			panic(fmt.Sprintf("load path through %T", v))
		}
	}
	return v
}
func setPath(v Val, path []int, nv Val) Val {
	if len(path) == 0 {
		return nv
	}
	switch x := v.(type) {
	case StructV:
		f := append([]Val{}, x.F...)
		f[path[0]] = setPath(f[path[0]], path[1:], nv)
		return StructV{f}
	case ArrV:
		f := append([]Val{}, x.E...)
		f[path[0]] = setPath(f[path[0]], path[1:], nv)
		return ArrV{f}
	}
	panic(fmt.Sprintf("setPath through %T", v))
}
func (e *Exec) store(st *State, p Ptr, v Val) {
	if p.Glob != nil {
		cur := e.loadGlobal(p.Glob)
		e.gmu.Lock()
		e.globals[p.Glob] = setPath(cur, p.Path, v)
		e.gmu.Unlock()
		return
	}
	if p.ID <= 0 {
		panic("store through nil/opaque pointer")
	}
	st.Heap[p.ID] = setPath(e.heapGet(st, p.ID), p.Path, v)
}
func (e *Exec) alloc(st *State, v Val) Ptr {
	id := int(atomic.AddInt64(&e.objSeq, 1)) // ids are unique across all states of a harness run (needed for state merging)
	st.Heap[id] = v
	return Ptr{ID: id}
}

type envInvoke struct{ Method string }

type outcome struct {
	kind string // "ok","panic","dropped","infeasible"
	st   *State
	why  string
}

func (e *Exec) drop(reason string) { panic(dropErr{reason}) }

type dropErr struct{ why string }

type workQ struct {
	mu     sync.Mutex
	cond   *sync.Cond
	items  []*State
	active int
}

func (q *workQ) push(ss ...*State) {
	q.mu.Lock()
	q.items = append(q.items, ss...)
	q.mu.Unlock()
	q.cond.Broadcast()
}

// pop blocks until a state is available or all workers are idle with an empty queue (returns nil).
func (q *workQ) pop() *State {
	q.mu.Lock()
	defer q.mu.Unlock()
	for len(q.items) == 0 {
		if q.active == 0 {
			q.cond.Broadcast()
			return nil
		}
		q.cond.Wait()
	}
	s := q.items[len(q.items)-1]
	q.items = q.items[:len(q.items)-1]
	q.active++
	return s
}
func (q *workQ) done() {
	q.mu.Lock()
	q.active--
	q.mu.Unlock()
	q.cond.Broadcast()
}

// run explores all paths from the entry function with the given workers (workers[0] is e itself).
func (e *Exec) run(entry *ssa.Function, base *State, workers []*Exec, onDone func(o outcome)) (counts map[string]int) {
	counts = map[string]int{}
	var cmu sync.Mutex
	st := &State{Heap: map[int]Val{}, Reached: map[string]bool{}}
	if base != nil {
		st = base.clone()
		st.Frames = nil
		st.Panic = nil
	}
	st.Frames = []*Frame{{Fn: entry, Blk: entry.Blocks[0], Regs: map[ssa.Value]Val{}}}
	e.funcs[entry] = true
	q := &workQ{}
	q.cond = sync.NewCond(&q.mu)
	q.items = []*State{st}
	if len(workers) == 0 {
		workers = []*Exec{e}
	}
	var wg sync.WaitGroup
	for _, w := range workers {
		wg.Add(1)
		go func(w *Exec) {
			defer wg.Done()
			finish := func(o outcome) {
				if !w.initMode && o.kind != "infeasible" {
					w.flushAsserts(o.st)
				}
				o.st.ID = int(atomic.AddInt64(&w.pathSeq, 1))
				cmu.Lock()
				counts[o.kind]++
				cmu.Unlock()
				if o.kind == "dropped" {
					w.dropped[o.why]++
				}
				if onDone != nil {
					cmu.Lock()
					onDone(o)
					cmu.Unlock()
				}
			}
			for {
				s := q.pop()
				if s == nil {
					return
				}
				w.explore(s, q, finish)
				q.done()
			}
		}(w)
	}
	wg.Wait()
	return counts
}

// explore runs one state depth-first; forks are pushed to the shared queue except one that is continued locally.
func (e *Exec) explore(s *State, q *workQ, finish func(outcome)) {
	e.finishFn = finish
	defer func() {
		if r := recover(); r != nil {
			why := fmt.Sprint(r)
			if de, ok := r.(dropErr); ok {
				why = de.why
			} else if e.trace {
				fmt.Fprintln(os.Stderr, "DROPPED:", r)
				debug.PrintStack()
			}
			where := ""
			if len(s.Frames) > 0 {
				fr := s.Frames[len(s.Frames)-1]
				if fr.Idx > 0 && fr.Idx <= len(fr.Blk.Instrs) {
					where = " @ " + fr.Fn.String()
					if e.trace {
						where += ": " + fr.Blk.Instrs[fr.Idx-1].String()
					}
				}
			}
			if len(why) > 160 {
				why = why[:160]
			}
			finish(outcome{"dropped", s, why + where})
		}
	}()
	for {
		if e.maxPaths > 0 && atomic.LoadInt64(&e.pathSeq) >= int64(e.maxPaths) {
			finish(outcome{"dropped", s, "path budget exhausted"})
			return
		}
		s.Steps++
		if s.Steps > e.maxSteps {
			e.drop("step limit")
		}
		forks, done := e.step(s)
		if forks != nil {
			if len(forks) == 0 {
				if !s.Dead {
					finish(outcome{"infeasible", s, ""})
				}
				return
			}
			if len(forks) > 1 {
				q.push(forks[:len(forks)-1]...)
			}
			s = forks[len(forks)-1]
			continue
		}
		if done {
			k := "ok"
			if s.Panic != nil {
				k = "panic"
				if e.trace && !e.initMode {
					fmt.Fprintf(os.Stderr, "path ended in panic: %v\n", s.Panic.V)
				}
			}
			if s.Reached["<assume-false>"] {
				k = "infeasible"
			}
			finish(outcome{k, s, ""})
			return
		}
	}
}

// fork branches on a symbolic boolean; returns the feasible successor states (conditions added).
// The returned slice is non-nil (possibly empty = both sides infeasible, path ends).
func (e *Exec) fork(s *State, cond string, onTrue, onFalse func(*State)) []*State {
	res := []*State{}
	if cond == "true" || cond == "false" {
		if cond == "true" {
			onTrue(s)
		} else {
			onFalse(s)
		}
		return []*State{s}
	}
	neg := tNot(cond)
	tOK := e.sol.check(s.PC, cond) != "unsat"
	fOK := true
	if tOK {
		fOK = e.sol.check(s.PC, neg) != "unsat"
	}
	if tOK && !fOK {
		// condition implied by the path: no clone, no new conjunct needed (keeps PCs short)
		onTrue(s)
		return []*State{s}
	}
	if !tOK {
		// true side infeasible; false side is then implied (if the path itself is feasible)
		onFalse(s)
		return []*State{s}
	}
	t := s.clone()
	t.PC = append(t.PC, cond)
	onTrue(t)
	res = append(res, t)
	s.PC = append(s.PC, neg)
	onFalse(s)
	res = append(res, s)
	return res
}

// forkN: mutually exclusive alternatives (conds need not be exhaustive; the caller supplies an else).
type alt struct {
	cond string
	do   func(*State)
}

func (e *Exec) forkN(s *State, alts []alt) []*State {
	res := []*State{}
	var feas []alt
	for _, a := range alts {
		if a.cond == "false" {
			continue
		}
		if a.cond == "true" || e.sol.check(s.PC, a.cond) != "unsat" {
			feas = append(feas, a)
		}
	}
	for i, a := range feas {
		t := s
		if i < len(feas)-1 {
			t = s.clone()
		}
		if a.cond != "true" {
			t.PC = append(t.PC, a.cond)
		}
		a.do(t)
		res = append(res, t)
	}
	return res
}

func top(s *State) *Frame { return s.Frames[len(s.Frames)-1] }

const maxSplit = 40

// concretize makes the integer operand v of the current instruction concrete. If it is not, the state is forked over
// the feasible values lo..hi (register rewritten, instruction re-executed) plus one out-of-range state given to onOut.
func (e *Exec) concretize(s *State, f *Frame, v ssa.Value, lo, hi int64, onOut func(*State)) (int64, []*State) {
	val := e.get(s, f, v).(Sym)
	if c, ok := asConst(val.S); ok {
		if !c.IsInt64() || c.Int64() < lo || c.Int64() > hi {
			if onOut == nil {
				e.drop("concrete value out of the supported range")
			}
			onOut(s)
			return 0, []*State{s}
		}
		return c.Int64(), nil
	}
	if hi-lo > maxSplit {
		e.drop(fmt.Sprintf("symbolic value needs a case split wider than %d", maxSplit))
	}
	var alts []alt
	for k := lo; k <= hi; k++ {
		kk := k
		alts = append(alts, alt{tEq(val.S, smtInt(big.NewInt(kk))), func(t *State) {
			tf := top(t)
			tf.Regs[v] = intc(kk)
			tf.Idx--
		}})
	}
	out := tOr(tCmp("<", val.S, smtInt(big.NewInt(lo))), tCmp(">", val.S, smtInt(big.NewInt(hi))))
	alts = append(alts, alt{out, func(t *State) {
		if onOut == nil {
			e.drop("symbolic value outside the case-split range")
		}
		onOut(t)
	}})
	e.stats["case-splits"]++
	return 0, e.forkN(s, alts)
}

func (e *Exec) jump(f *Frame, to *ssa.BasicBlock) {
	f.Prev, f.Blk, f.Idx = f.Blk, to, 0
}

func (e *Exec) symBranchVisit(f *Frame) {
	if f.Visits == nil {
		f.Visits = map[int]int{}
	}
	f.Visits[f.Blk.Index]++
	if f.Visits[f.Blk.Index] > e.unwind {
		e.drop("unwinding bound exceeded")
	}
}

func (e *Exec) startPanic(s *State, v IfaceV) {
	if e.trace && e.initMode {
		fmt.Fprintf(os.Stderr, "panic during init: %v in %s\n", v.V, top(s).Fn)
		for i := len(s.Frames) - 1; i >= 0 && i > len(s.Frames)-6; i-- {
			fmt.Fprintf(os.Stderr, "   at %s\n", s.Frames[i].Fn)
		}
	}
	s.Panic = &v
	s.Frames[len(s.Frames)-1].Panicking = true
}

var runtimeErrT = types.Universe.Lookup("error").Type()

func (e *Exec) runtimePanic(s *State, msg string) {
	e.startPanic(s, IfaceV{T: runtimeErrT, V: OpaqueV{"runtime error: " + msg}})
}

// step executes one instruction (or one unwinding action). Returns forks (replace state) or done.
func (e *Exec) step(s *State) ([]*State, bool) {
	if len(s.Frames) == 0 {
		return nil, true
	}
	f := s.Frames[len(s.Frames)-1]
	if f.Panicking {
		if len(f.Defers) > 0 {
			d := f.Defers[len(f.Defers)-1]
			f.Defers = f.Defers[:len(f.Defers)-1]
			e.pushCall(s, d.Fn, d.Args, nil, true)
			return nil, false
		}
		s.Frames = s.Frames[:len(s.Frames)-1]
		if len(s.Frames) == 0 {
			return nil, true
		}
		s.Frames[len(s.Frames)-1].Panicking = true
		return nil, false
	}
	ins := f.Blk.Instrs[f.Idx]
	f.Idx++
	switch x := ins.(type) {
	case *ssa.Phi:
		// all phis of a block read their operands simultaneously
		idx := -1
		for i, p := range f.Blk.Preds {
			if p == f.Prev {
				idx = i
			}
		}
		vals := map[*ssa.Phi]Val{}
		j := f.Idx - 1
		for ; j < len(f.Blk.Instrs); j++ {
			ph, ok := f.Blk.Instrs[j].(*ssa.Phi)
			if !ok {
				break
			}
			vals[ph] = e.get(s, f, ph.Edges[idx])
		}
		for ph, v := range vals {
			f.Regs[ph] = v
		}
		f.Idx = j
	case *ssa.Jump:
		e.jump(f, f.Blk.Succs[0])
	case *ssa.If:
		c := e.get(s, f, x.Cond).(Sym)
		tb, fb := f.Blk.Succs[0], f.Blk.Succs[1]
		if c.S != "true" && c.S != "false" {
			e.symBranchVisit(f)
		}
		if c.S != "true" && c.S != "false" && e.regionEnabled(f.Fn) {
			if J := cfgOf(f.Fn).ipdom[f.Blk]; J != nil {
				basePC := append([]string{}, s.PC...)
				nAs, depth, fn := len(s.Asserts), len(s.Frames), f.Fn
				arms := e.fork(s, c.S, func(t *State) { e.jump(top(t), tb) }, func(t *State) { e.jump(top(t), fb) })
				if len(arms) == 2 {
					return e.ifRegion(arms, fn, J, depth, basePC, nAs), false
				}
				return arms, false
			}
		}
		return e.fork(s, c.S, func(t *State) { e.jump(top(t), tb) }, func(t *State) { e.jump(top(t), fb) }), false
	case *ssa.Return:
		var rv Val
		if len(x.Results) == 1 {
			rv = e.get(s, f, x.Results[0])
		} else if len(x.Results) > 1 {
			t := make(Tuple, len(x.Results))
			for i, r := range x.Results {
				t[i] = e.get(s, f, r)
			}
			rv = t
		}
		e.doReturn(s, rv)
	case *ssa.RunDefers:
		if len(f.Defers) > 0 {
			d := f.Defers[len(f.Defers)-1]
			f.Defers = f.Defers[:len(f.Defers)-1]
			f.Idx-- // re-execute RunDefers after the deferred call returns
			e.pushCall(s, d.Fn, d.Args, nil, true)
		}
	case *ssa.Defer:
		fn, args := e.callee(s, f, &x.Call)
		if cl, ok := fn.(Closure); ok && cl.Fn != nil && strings.HasPrefix(cl.Fn.String(), "github.com/cosmos/cosmos-sdk/telemetry.") {
			break // metrics: no effect on state (same as the no-op intrinsic for a direct call)
		}
		f.Defers = append(f.Defers, Deferred{fn, args})
	case *ssa.Panic:
		v := e.get(s, f, x.X).(IfaceV)
		e.startPanic(s, v)
	case *ssa.Alloc:
		f.Regs[x] = e.alloc(s, e.zero(x.Type().(*types.Pointer).Elem()))
	case *ssa.Store:
		p := e.get(s, f, x.Addr).(Ptr)
		if p.ID == 0 && p.Glob == nil {
			e.runtimePanic(s, "invalid memory address or nil pointer dereference")
			return nil, false
		}
		e.store(s, p, e.get(s, f, x.Val))
	case *ssa.UnOp:
		v := e.get(s, f, x.X)
		switch x.Op {
		case token.MUL:
			p := v.(Ptr)
			if p.ID == 0 && p.Glob == nil {
				e.runtimePanic(s, "invalid memory address or nil pointer dereference")
				return nil, false
			}
			f.Regs[x] = e.load(s, p)
		case token.NOT:
			f.Regs[x] = Sym{Bool: true, S: tNot(v.(Sym).S)}
		case token.SUB:
			switch vv := v.(type) {
			case Sym:
				f.Regs[x] = Sym{S: e.wrap1(x.Type(), tNeg(vv.S))}
			case FloatV:
				f.Regs[x] = FloatV{T: "(- " + vv.T + ")"}
			default:
				panic("unop - on " + describeVal(v))
			}
		default:
			panic("unop " + x.Op.String())
		}
	case *ssa.BinOp:
		return e.binopInstr(s, f, x)
	case *ssa.Convert:
		return e.convert(s, f, x)
	case *ssa.ChangeType:
		f.Regs[x] = e.get(s, f, x.X)
	case *ssa.Extract:
		f.Regs[x] = e.get(s, f, x.Tuple).(Tuple)[x.Index]
	case *ssa.FieldAddr:
		p := e.get(s, f, x.X).(Ptr)
		if p.ID == 0 && p.Glob == nil {
			e.runtimePanic(s, "invalid memory address or nil pointer dereference")
			return nil, false
		}
		f.Regs[x] = Ptr{ID: p.ID, Path: append(append([]int{}, p.Path...), x.Field), Glob: p.Glob}
	case *ssa.Field:
		f.Regs[x] = e.get(s, f, x.X).(StructV).F[x.Field]
	case *ssa.MakeInterface:
		f.Regs[x] = IfaceV{T: x.X.Type(), V: e.get(s, f, x.X)}
	case *ssa.ChangeInterface:
		f.Regs[x] = e.get(s, f, x.X)
	case *ssa.MakeClosure:
		b := make([]Val, len(x.Bindings))
		for i, bv := range x.Bindings {
			b[i] = e.get(s, f, bv)
		}
		f.Regs[x] = Closure{Fn: x.Fn.(*ssa.Function), Binds: b}
	case *ssa.TypeAssert:
		iv := e.get(s, f, x.X).(IfaceV)
		if iv.NilIf != "" {
			return e.resolveIface(s, f, x.X, iv), false
		}
		ok := iv.T != nil && types.Identical(iv.T, x.AssertedType)
		_, isIface := x.AssertedType.Underlying().(*types.Interface)
		if isIface {
			ok = iv.T != nil && types.Implements(iv.T, x.AssertedType.Underlying().(*types.Interface))
		}
		if x.CommaOk {
			var v Val = e.zero(x.AssertedType)
			if ok {
				v = iv.V
				if isIface {
					v = iv
				}
			}
			f.Regs[x] = Tuple{v, boolc(ok)}
		} else if ok {
			if isIface {
				f.Regs[x] = iv
			} else {
				f.Regs[x] = iv.V
			}
		} else {
			e.runtimePanic(s, "interface conversion")
		}
	case *ssa.Call:
		return e.call(s, f, x)
	case *ssa.Range:
		switch rv := e.get(s, f, x.X).(type) {
		case Ptr:
			var mv MapV
			if rv.ID != 0 {
				mv = s.Heap[rv.ID].(MapV)
			}
			k, v := e.mapOrder(s, mv)
			f.Regs[x] = e.alloc(s, RangeV{K: k, V: v})
		default:
			panic("range over " + describeVal(rv))
		}
	case *ssa.Next:
		rp := e.get(s, f, x.Iter).(Ptr)
		rv := s.Heap[rp.ID].(RangeV)
		mt := x.Iter.(*ssa.Range).X.Type().Underlying().(*types.Map)
		if rv.Pos < len(rv.K) {
			f.Regs[x] = Tuple{boolc(true), rv.K[rv.Pos], rv.V[rv.Pos]}
			rv.Pos++
			s.Heap[rp.ID] = rv
		} else {
			f.Regs[x] = Tuple{boolc(false), e.zero(mt.Key()), e.zero(mt.Elem())}
		}
	case *ssa.MakeMap:
		f.Regs[x] = e.alloc(s, MapV{})
	case *ssa.MapUpdate:
		return e.mapUpdate(s, f, x)
	case *ssa.Lookup:
		return e.lookup(s, f, x)
	case *ssa.MakeSlice:
		n, forks := e.concretize(s, f, x.Len, 0, maxSplit, func(t *State) { e.runtimePanic(t, "makeslice: len out of range") })
		if forks != nil {
			return forks, false
		}
		cp := n
		if x.Cap != nil {
			// a symbolic capacity hint only pre-allocates: modelled as capacity = length (appends then allocate)
			if cs, ok := e.get(s, f, x.Cap).(Sym); ok {
				if c, isC := asConst(cs.S); isC && c.IsInt64() {
					cp = c.Int64()
				}
			}
			if cp < n {
				cp = n
			}
		}
		if cp > 4096 {
			cp = 4096
			if cp < n {
				cp = n
			}
		}
		el := make([]Val, cp)
		zt := x.Type().Underlying().(*types.Slice).Elem()
		for i := range el {
			el[i] = e.zero(zt)
		}
		p := e.alloc(s, ArrV{el})
		f.Regs[x] = SliceV{ID: p.ID, Len: int(n), Cap: int(cp)}
	case *ssa.Slice:
		return e.sliceInstr(s, f, x)
	case *ssa.IndexAddr:
		return e.indexAddr(s, f, x)
	case *ssa.Index:
		return e.indexInstr(s, f, x)
	case *ssa.DebugRef:
	default:
		panic(fmt.Sprintf("unsupported instruction %T", ins))
	}
	return nil, false
}

func sliceCap(b SliceV) int {
	if b.Cap > b.Len {
		return b.Cap
	}
	return b.Len
}

// needLen makes the length of a havocked slice concrete by forking over 0..Len; the register of operand v is rewritten.
func (e *Exec) needLen(s *State, f *Frame, v ssa.Value, sl SliceV) []*State {
	if sl.SymLen == "" {
		return nil
	}
	var alts []alt
	for k := 0; k <= sl.Len; k++ {
		kk := k
		alts = append(alts, alt{tEq(sl.SymLen, fmt.Sprint(kk)), func(t *State) {
			tf := top(t)
			tf.Regs[v] = SliceV{ID: sl.ID, Off: sl.Off, Len: kk, Cap: kk}
			if kk == 0 {
				tf.Regs[v] = SliceV{}
			}
			tf.Idx--
		}})
	}
	e.stats["slice-length-splits"]++
	return e.forkN(s, alts)
}

func (e *Exec) sliceInstr(s *State, f *Frame, x *ssa.Slice) ([]*State, bool) {
	base := e.get(s, f, x.X)
	if sl, ok := base.(SliceV); ok && sl.SymLen != "" {
		return e.needLen(s, f, x.X, sl), false
	}
	var capN int
	switch b := base.(type) {
	case Ptr:
		if b.ID == 0 && b.Glob == nil {
			e.runtimePanic(s, "nil pointer dereference")
			return nil, false
		}
		capN = len(e.load(s, b).(ArrV).E)
	case SliceV:
		capN = sliceCap(b)
	case StrV:
		capN = len(b.S)
	case BytesV:
		// slicing of abstract byte strings is only supported with concrete bounds over a single constant segment
		capN = -1
	default:
		panic("slice of " + describeVal(base))
	}
	if capN < 0 {
		panic("slice of abstract bytes")
	}
	lo, hi := int64(0), int64(-1)
	oob := func(t *State) { e.runtimePanic(t, "slice bounds out of range") }
	if x.Low != nil {
		v, forks := e.concretize(s, f, x.Low, 0, int64(capN), oob)
		if forks != nil {
			return forks, false
		}
		lo = v
	}
	if x.High != nil {
		v, forks := e.concretize(s, f, x.High, 0, int64(capN), oob)
		if forks != nil {
			return forks, false
		}
		hi = v
	}
	mx := int64(-1)
	if x.Max != nil {
		v, forks := e.concretize(s, f, x.Max, 0, int64(capN), oob)
		if forks != nil {
			return forks, false
		}
		mx = v
	}
	switch b := base.(type) {
	case Ptr:
		arr := e.load(s, b).(ArrV)
		if hi < 0 {
			hi = int64(len(arr.E))
		}
		if lo > hi {
			oob(s)
			return nil, false
		}
		if len(b.Path) != 0 || b.Glob != nil {
			b = e.alloc(s, arr)
		}
		f.Regs[x] = SliceV{ID: b.ID, Off: int(lo), Len: int(hi - lo), Cap: len(arr.E) - int(lo)}
	case SliceV:
		if hi < 0 {
			hi = int64(b.Len)
		}
		if lo > hi || hi > int64(capN) {
			oob(s)
			return nil, false
		}
		nc := capN - int(lo)
		if mx >= 0 {
			if mx < hi {
				oob(s)
				return nil, false
			}
			nc = int(mx - lo)
		}
		if b.ID == 0 {
			f.Regs[x] = SliceV{}
		} else {
			f.Regs[x] = SliceV{ID: b.ID, Off: b.Off + int(lo), Len: int(hi - lo), Cap: nc}
		}
	case StrV:
		if hi < 0 {
			hi = int64(len(b.S))
		}
		if lo > hi {
			oob(s)
			return nil, false
		}
		f.Regs[x] = StrV{b.S[lo:hi]}
	}
	return nil, false
}

func (e *Exec) indexAddr(s *State, f *Frame, x *ssa.IndexAddr) ([]*State, bool) {
	base := e.get(s, f, x.X)
	n := 0
	switch b := base.(type) {
	case SliceV:
		if b.SymLen != "" {
			return e.needLen(s, f, x.X, b), false
		}
		n = b.Len
	case Ptr:
		if b.ID == 0 && b.Glob == nil {
			e.runtimePanic(s, "nil pointer dereference")
			return nil, false
		}
		n = len(e.load(s, b).(ArrV).E)
	default:
		panic("indexaddr base " + describeVal(base))
	}
	idx, forks := e.concretize(s, f, x.Index, 0, int64(n)-1, func(t *State) { e.runtimePanic(t, "index out of range") })
	if forks != nil {
		return forks, false
	}
	switch b := base.(type) {
	case SliceV:
		f.Regs[x] = Ptr{ID: b.ID, Path: []int{b.Off + int(idx)}}
	case Ptr:
		f.Regs[x] = Ptr{ID: b.ID, Glob: b.Glob, Path: append(append([]int{}, b.Path...), int(idx))}
	}
	return nil, false
}

func (e *Exec) indexInstr(s *State, f *Frame, x *ssa.Index) ([]*State, bool) {
	base := e.get(s, f, x.X)
	switch b := base.(type) {
	case ArrV:
		idx, forks := e.concretize(s, f, x.Index, 0, int64(len(b.E))-1, func(t *State) { e.runtimePanic(t, "index out of range") })
		if forks != nil {
			return forks, false
		}
		f.Regs[x] = b.E[idx]
	case StrV:
		idx, forks := e.concretize(s, f, x.Index, 0, int64(len(b.S))-1, func(t *State) { e.runtimePanic(t, "index out of range") })
		if forks != nil {
			return forks, false
		}
		f.Regs[x] = intc(int64(b.S[idx]))
	default:
		panic("index of " + describeVal(base))
	}
	return nil, false
}

// valEq: equality condition of two values of the same Go type (for map keys and ==)
func (e *Exec) valEq(a, b Val) string {
	switch x := a.(type) {
	case Sym:
		y := b.(Sym)
		if x.Bool {
			if x.S == y.S {
				return "true"
			}
			return "(= " + x.S + " " + y.S + ")"
		}
		return tEq(x.S, y.S)
	case StrV:
		if y, ok := b.(StrV); ok {
			if x.S == y.S {
				return "true"
			}
			return "false"
		}
		return tEq(e.strID(a), e.strID(b))
	case SymStr:
		return tEq(e.strID(a), e.strID(b))
	case Ptr:
		y := b.(Ptr)
		if x.ID == y.ID && x.Glob == y.Glob && fmt.Sprint(x.Path) == fmt.Sprint(y.Path) {
			return "true"
		}
		return "false"
	case IfaceV:
		y := b.(IfaceV)
		if x.T == nil || y.T == nil {
			if (x.T == nil) == (y.T == nil) {
				return "true"
			}
			return "false"
		}
		if !types.Identical(x.T, y.T) {
			return "false"
		}
		return e.valEq(x.V, y.V)
	case StructV:
		y := b.(StructV)
		var cs []string
		for i := range x.F {
			cs = append(cs, e.valEq(x.F[i], y.F[i]))
		}
		return tAnd(cs...)
	case BigV:
		// == on math.Int / LegacyDec structs compares the *big.Int pointers: two separately produced values are never
		// identical (stated approximation: a value compared with a copy of itself is not recognised)
		if x.Nil && b.(BigV).Nil {
			return "true"
		}
		return "false"
	case TimeV:
		return tEq(x.T, b.(TimeV).T)
	case OpaqueV:
		if y, ok := b.(OpaqueV); ok && x == y {
			return "true"
		}
		return "false"
	case ArrV:
		y := b.(ArrV)
		var cs []string
		for i := range x.E {
			cs = append(cs, e.valEq(x.E[i], y.E[i]))
		}
		return tAnd(cs...)
	}
	panic("valEq on " + describeVal(a))
}

// mapOrder returns the iteration order of a map. Go's order is unspecified; the executor uses insertion order and
// the determinism obligations (C16) run the same code a second time in reversed order (see zzvp.MapOrderReversed).
func (e *Exec) mapOrder(s *State, m MapV) ([]Val, []Val) {
	k := append([]Val{}, m.K...)
	v := append([]Val{}, m.V...)
	if s.E != nil && s.E.MapReverse {
		for i, j := 0, len(k)-1; i < j; i, j = i+1, j-1 {
			k[i], k[j] = k[j], k[i]
			v[i], v[j] = v[j], v[i]
		}
	}
	return k, v
}

func (e *Exec) lookup(s *State, f *Frame, x *ssa.Lookup) ([]*State, bool) {
	mp, isMap := e.get(s, f, x.X).(Ptr)
	if !isMap {
		// string indexing
		str := e.get(s, f, x.X).(StrV)
		idx, forks := e.concretize(s, f, x.Index, 0, int64(len(str.S))-1, func(t *State) { e.runtimePanic(t, "index out of range") })
		if forks != nil {
			return forks, false
		}
		f.Regs[x] = intc(int64(str.S[idx]))
		return nil, false
	}
	elemT := x.X.Type().Underlying().(*types.Map).Elem()
	setRes := func(t *State, res Val, ok bool) {
		tf := top(t)
		if x.CommaOk {
			tf.Regs[x] = Tuple{res, boolc(ok)}
		} else {
			tf.Regs[x] = res
		}
	}
	if mp.ID == 0 {
		setRes(s, e.zero(elemT), false)
		return nil, false
	}
	m := s.Heap[mp.ID].(MapV)
	k := e.get(s, f, x.Index)
	var alts []alt
	var conds []string
	for i := range m.K {
		c := e.valEq(m.K[i], k)
		if c == "true" {
			if len(alts) == 0 {
				setRes(s, m.V[i], true)
				return nil, false
			}
		}
		if c == "false" {
			continue
		}
		ii := i
		alts = append(alts, alt{c, func(t *State) { setRes(t, m.V[ii], true) }})
		conds = append(conds, tNot(c))
	}
	if len(alts) == 0 {
		setRes(s, e.zero(elemT), false)
		return nil, false
	}
	alts = append(alts, alt{tAnd(conds...), func(t *State) { setRes(t, e.zero(elemT), false) }})
	return e.forkN(s, alts), false
}

func (e *Exec) mapUpdate(s *State, f *Frame, x *ssa.MapUpdate) ([]*State, bool) {
	mp := e.get(s, f, x.Map).(Ptr)
	if mp.ID == 0 {
		e.runtimePanic(s, "assignment to entry in nil map")
		return nil, false
	}
	m := s.Heap[mp.ID].(MapV)
	k, v := e.get(s, f, x.Key), e.get(s, f, x.Value)
	upd := func(t *State, i int) {
		mm := t.Heap[mp.ID].(MapV)
		nm := MapV{K: append([]Val{}, mm.K...), V: append([]Val{}, mm.V...)}
		if i < 0 {
			nm.K = append(nm.K, k)
			nm.V = append(nm.V, v)
		} else {
			nm.V[i] = v
		}
		t.Heap[mp.ID] = nm
	}
	var alts []alt
	var conds []string
	for i := range m.K {
		c := e.valEq(m.K[i], k)
		if c == "true" && len(alts) == 0 {
			upd(s, i)
			return nil, false
		}
		if c == "false" {
			continue
		}
		ii := i
		alts = append(alts, alt{c, func(t *State) { upd(t, ii) }})
		conds = append(conds, tNot(c))
	}
	if len(alts) == 0 {
		upd(s, -1)
		return nil, false
	}
	alts = append(alts, alt{tAnd(conds...), func(t *State) { upd(t, -1) }})
	return e.forkN(s, alts), false
}

func (e *Exec) convert(s *State, f *Frame, x *ssa.Convert) ([]*State, bool) {
	v := e.get(s, f, x.X)
	dst := x.Type()
	switch sy := v.(type) {
	case Sym:
		if b, ok := types.Unalias(dst).Underlying().(*types.Basic); ok && b.Info()&types.IsFloat != 0 {
			f.Regs[x] = FloatV{T: "(to_real " + sy.S + ")"}
			return nil, false
		}
		if b, ok := types.Unalias(dst).Underlying().(*types.Basic); ok && b.Info()&types.IsString != 0 {
			if c, isC := asConst(sy.S); isC {
				f.Regs[x] = StrV{string(rune(c.Int64()))}
				return nil, false
			}
			panic("string(symbolic rune)")
		}
		sb, ss, _ := intKind(x.X.Type())
		db, ds, okd := intKind(dst)
		if okd && sb == db && ss != ds {
			f.Regs[x] = Sym{S: e.wrap1(dst, sy.S)}
		} else if okd && db >= sb && (ds == ss || (ds && !ss && db > sb)) {
			f.Regs[x] = sy // widening, value preserved
		} else {
			f.Regs[x] = Sym{S: e.wrap(dst, sy.S)}
		}
	case FloatV:
		if _, _, ok := intKind(dst); ok {
			// float -> int: truncation toward zero (contract model over reals; NaN/inf/out-of-range not modelled)
			q := e.sol.fresh("f2i", false)
			s.PC = append(s.PC, fmt.Sprintf("(ite (>= %s 0.0) (and (<= (to_real %s) %s) (< %s (+ (to_real %s) 1.0))) (and (>= (to_real %s) %s) (> %s (- (to_real %s) 1.0))))", sy.T, q, sy.T, sy.T, q, q, sy.T, sy.T, q))
			f.Regs[x] = Sym{S: e.wrap(dst, q)}
		} else {
			f.Regs[x] = sy
		}
	case StrV, SymStr:
		if _, isSlice := dst.Underlying().(*types.Slice); isSlice {
			f.Regs[x] = e.toBytesV(s, v)
		} else {
			f.Regs[x] = v
		}
	case BytesV:
		f.Regs[x] = e.bytesToStr(s, sy)
	case SliceV:
		// []byte -> string of a concrete byte slice
		if sy.ID == 0 {
			f.Regs[x] = StrV{""}
			return nil, false
		}
		arr := e.heapGet(s, sy.ID).(ArrV)
		b := make([]byte, sy.Len)
		for i := 0; i < sy.Len; i++ {
			c, ok := asConst(arr.E[sy.Off+i].(Sym).S)
			if !ok {
				panic("string(symbolic bytes)")
			}
			b[i] = byte(c.Int64())
		}
		f.Regs[x] = StrV{string(b)}
	default:
		panic("convert " + describeVal(v) + " to " + dst.String())
	}
	return nil, false
}

func (e *Exec) doReturn(s *State, rv Val) {
	f := s.Frames[len(s.Frames)-1]
	s.Frames = s.Frames[:len(s.Frames)-1]
	if len(s.Frames) == 0 {
		return
	}
	c := s.Frames[len(s.Frames)-1]
	if f.IsDefer {
		if c.Panicking && s.Panic == nil {
			// recovered: caller returns normally through its Recover block
			c.Panicking = false
			if c.Fn.Recover != nil {
				e.jump(c, c.Fn.Recover)
			} else {
				e.doReturn(s, e.zero(c.Fn.Signature.Results()))
			}
		}
		return
	}
	if f.RetTo != nil {
		c.Regs[f.RetTo] = rv
	}
}

func (e *Exec) callee(s *State, f *Frame, c *ssa.CallCommon) (Val, []Val) {
	var args []Val
	if c.IsInvoke() {
		recv := e.get(s, f, c.Value).(IfaceV)
		if recv.T == nil {
			return nilInvoke{c.Method.Name()}, nil
		}
		switch recv.V.(type) {
		case StoreV, CodecV, BankV, OpaqueV, IterV, AccountKV:
			args = append(args, recv.V)
			for _, a := range c.Args {
				args = append(args, e.get(s, f, a))
			}
			return envInvoke{c.Method.Name()}, args
		}
		m := e.prog.LookupMethod(recv.T, c.Method.Pkg(), c.Method.Name())
		if m == nil {
			panic("no method " + c.Method.Name() + " on " + recv.T.String())
		}
		args = append(args, recv.V)
		for _, a := range c.Args {
			args = append(args, e.get(s, f, a))
		}
		return Closure{Fn: m}, args
	}
	fn := e.get(s, f, c.Value)
	for _, a := range c.Args {
		args = append(args, e.get(s, f, a))
	}
	return fn, args
}

type nilInvoke struct{ Method string }

func (e *Exec) pushCall(s *State, fn Val, args []Val, retTo ssa.Value, isDefer bool) {
	cl, ok := fn.(Closure)
	if !ok || cl.Fn == nil {
		if isDefer {
			// deferred intrinsic-like calls (e.g. iterator Close through an env object): ignore
			if _, isEnv := fn.(envInvoke); isEnv {
				return
			}
		}
		panic(fmt.Sprintf("call of %T", fn))
	}
	if cl.Fn.Blocks == nil {
		if isDefer {
			if _, ok := intrinsics[cl.Fn.String()]; ok {
				return // deferred intrinsic without effect on the model (Close, Unlock, ...)
			}
		}
		panic("no body: " + cl.Fn.String())
	}
	if len(s.Frames) > 400 {
		e.drop("call depth bound exceeded")
	}
	e.funcs[cl.Fn] = true
	nf := &Frame{Fn: cl.Fn, Blk: cl.Fn.Blocks[0], Regs: make(map[ssa.Value]Val, 16), RetTo: retTo, IsDefer: isDefer}
	for i, p := range cl.Fn.Params {
		nf.Regs[p] = args[i]
	}
	for i, fv := range cl.Fn.FreeVars {
		nf.Regs[fv] = cl.Binds[i]
	}
	s.Frames = append(s.Frames, nf)
}

func (e *Exec) binopInstr(s *State, f *Frame, x *ssa.BinOp) ([]*State, bool) {
	a, b := e.get(s, f, x.X), e.get(s, f, x.Y)
	as, aok := a.(Sym)
	bs, bok := b.(Sym)
	if aok && bok && !as.Bool && (x.Op == token.QUO || x.Op == token.REM) {
		return e.intDiv(s, f, x, as.S, bs.S)
	}
	f.Regs[x] = e.binop(s, x, a, b)
	return nil, false
}

// intDiv: Go integer division/remainder (truncation toward zero), division by zero => runtime panic
func (e *Exec) intDiv(s *State, f *Frame, x *ssa.BinOp, a, b string) ([]*State, bool) {
	ca, ok1 := asConst(a)
	cb, ok2 := asConst(b)
	if ok1 && ok2 && cb.Sign() != 0 {
		r := new(big.Int)
		if x.Op == token.QUO {
			r.Quo(ca, cb)
		} else {
			r.Rem(ca, cb)
		}
		f.Regs[x] = Sym{S: e.wrap(x.Type(), smtInt(r))}
		return nil, false
	}
	return e.fork(s, tEq(b, "0"), func(t *State) {
		e.runtimePanic(t, "integer divide by zero")
	}, func(t *State) {
		q, r := e.truncDiv(t, a, b)
		if x.Op == token.QUO {
			top(t).Regs[x] = Sym{S: e.wrap1(x.Type(), q)} // MinInt / -1 wraps
		} else {
			top(t).Regs[x] = Sym{S: r}
		}
	}), false
}

// truncDiv introduces q, r with num = q*den + r, |r| < |den|, r has the sign of num (or is 0). den != 0 must hold on the path.
func (e *Exec) truncDiv(s *State, num, den string) (string, string) {
	q := e.sol.fresh("q", false)
	r := e.sol.fresh("r", false)
	def := fmt.Sprintf("(= %s (+ (* %s %s) %s))", num, q, den, r)
	if isNonlinear(def) {
		def = "#def#" + def
	}
	absden := fmt.Sprintf("(ite (>= %s 0) %s (- %s))", den, den, den)
	if c, ok := asConst(den); ok {
		absden = new(big.Int).Abs(c).String()
	}
	s.PC = append(s.PC, def,
		fmt.Sprintf("(ite (>= %s 0) (and (>= %s 0) (< %s %s)) (and (<= %s 0) (> %s (- %s))))", num, r, r, absden, r, r, absden))
	// sign of the quotient (helps the solver when the definition is left out of feasibility checks)
	s.PC = append(s.PC, fmt.Sprintf("(=> (and (>= %s 0) (> %s 0)) (>= %s 0))", num, den, q))
	return q, r
}

func (e *Exec) foldInt(x *ssa.BinOp, a, b string) (Val, bool) {
	ca, ok1 := asConst(a)
	cb, ok2 := asConst(b)
	if !ok1 || !ok2 {
		return nil, false
	}
	r := new(big.Int)
	switch x.Op {
	case token.ADD:
		r.Add(ca, cb)
	case token.SUB:
		r.Sub(ca, cb)
	case token.MUL:
		r.Mul(ca, cb)
	case token.SHR:
		if !cb.IsInt64() || cb.Int64() > 512 {
			return intc(0), true
		}
		r.Rsh(ca, uint(cb.Int64()))
	case token.SHL:
		if !cb.IsInt64() || cb.Int64() > 512 {
			return intc(0), true
		}
		r.Lsh(ca, uint(cb.Int64()))
	case token.AND:
		if ca.Sign() < 0 || cb.Sign() < 0 {
			return nil, false
		}
		r.And(ca, cb)
	case token.OR:
		if ca.Sign() < 0 || cb.Sign() < 0 {
			return nil, false
		}
		r.Or(ca, cb)
	case token.XOR:
		if ca.Sign() < 0 || cb.Sign() < 0 {
			return nil, false
		}
		r.Xor(ca, cb)
	case token.AND_NOT:
		if ca.Sign() < 0 || cb.Sign() < 0 {
			return nil, false
		}
		r.AndNot(ca, cb)
	case token.LSS:
		return boolc(ca.Cmp(cb) < 0), true
	case token.LEQ:
		return boolc(ca.Cmp(cb) <= 0), true
	case token.GTR:
		return boolc(ca.Cmp(cb) > 0), true
	case token.GEQ:
		return boolc(ca.Cmp(cb) >= 0), true
	case token.EQL:
		return boolc(ca.Cmp(cb) == 0), true
	case token.NEQ:
		return boolc(ca.Cmp(cb) != 0), true
	default:
		return nil, false
	}
	return Sym{S: e.wrap(x.Type(), smtInt(r))}, true
}

func (e *Exec) binop(s *State, x *ssa.BinOp, a, b Val) Val {
	as, aok := a.(Sym)
	bs, bok := b.(Sym)
	if aok && bok && !as.Bool {
		if v, ok := e.foldInt(x, as.S, bs.S); ok {
			return v
		}
	}
	neq := x.Op == token.NEQ
	mkEq := func(t string) Val {
		if neq {
			return Sym{Bool: true, S: tNot(t)}
		}
		return Sym{Bool: true, S: t}
	}
	if !aok || !bok {
		if fa, ok := a.(FloatV); ok {
			fb := b.(FloatV)
			switch x.Op {
			case token.ADD:
				return FloatV{T: "(+ " + fa.T + " " + fb.T + ")"}
			case token.SUB:
				return FloatV{T: "(- " + fa.T + " " + fb.T + ")"}
			case token.MUL:
				return FloatV{T: "(* " + fa.T + " " + fb.T + ")"}
			case token.QUO:
				return FloatV{T: "(/ " + fa.T + " " + fb.T + ")"}
			case token.LSS:
				return Sym{Bool: true, S: "(< " + fa.T + " " + fb.T + ")"}
			case token.LEQ:
				return Sym{Bool: true, S: "(<= " + fa.T + " " + fb.T + ")"}
			case token.GTR:
				return Sym{Bool: true, S: "(> " + fa.T + " " + fb.T + ")"}
			case token.GEQ:
				return Sym{Bool: true, S: "(>= " + fa.T + " " + fb.T + ")"}
			case token.EQL, token.NEQ:
				return mkEq("(= " + fa.T + " " + fb.T + ")")
			}
			panic("float binop " + x.Op.String())
		}
		if x.Op == token.EQL || x.Op == token.NEQ {
			if ia, ok := a.(IfaceV); ok && ia.NilIf != "" {
				if ib, ok := b.(IfaceV); ok && ib.T == nil {
					return mkEq(ia.NilIf)
				}
				panic("comparison of a merged (maybe-nil) interface with a non-nil value")
			}
			if ib, ok := b.(IfaceV); ok && ib.NilIf != "" {
				if ia, ok := a.(IfaceV); ok && ia.T == nil {
					return mkEq(ib.NilIf)
				}
				panic("comparison of a merged (maybe-nil) interface with a non-nil value")
			}
			// a havocked slice is nil exactly when its (symbolic) length is 0 (proto round trip turns empty into nil)
			if sa, ok := a.(SliceV); ok && sa.SymLen != "" {
				if nb, isN := isNilish(b); isN && nb {
					return mkEq(tEq(sa.SymLen, "0"))
				}
			}
			if sb, ok := b.(SliceV); ok && sb.SymLen != "" {
				if na, isN := isNilish(a); isN && na {
					return mkEq(tEq(sb.SymLen, "0"))
				}
			}
			if g, ok := a.(GetResult); ok {
				if nb, isN := isNilish(b); isN && nb {
					return mkEq(tNot(g.presentTerm()))
				}
			}
			if g, ok := b.(GetResult); ok {
				if na, isN := isNilish(a); isN && na {
					return mkEq(tNot(g.presentTerm()))
				}
			}
			if an, ok1 := isNilish(a); ok1 {
				if bn, ok2 := isNilish(b); ok2 && (an || bn) {
					return mkEq(map[bool]string{true: "true", false: "false"}[an == bn])
				}
			}
			if ia, ok := a.(IfaceV); ok {
				ib := b.(IfaceV)
				if ia.T != nil && ib.T != nil {
					// two non-nil errors / interfaces: sentinel identity or structural equality
					if pa, ok := ia.V.(Ptr); ok {
						if pb, ok := ib.V.(Ptr); ok {
							return mkEq(map[bool]string{true: "true", false: "false"}[pa.ID == pb.ID && pa.Glob == pb.Glob])
						}
						return mkEq("false")
					}
					if _, isOp := ia.V.(OpaqueV); isOp {
						return mkEq("false") // freshly built error values are never identical to another error value
					}
					if _, isOp := ib.V.(OpaqueV); isOp {
						return mkEq("false")
					}
				}
			}
			return mkEq(e.valEq(a, b))
		}
		if x.Op == token.ADD {
			_, as1 := a.(StrV)
			_, as2 := a.(SymStr)
			if as1 || as2 {
				if sa, ok := a.(StrV); ok {
					if sb, ok := b.(StrV); ok {
						return StrV{sa.S + sb.S}
					}
				}
				return SymStr{T: "(strcat " + e.strID(a) + " " + e.strID(b) + ")"}
			}
		}
		if sa, ok := a.(StrV); ok {
			if sb, ok := b.(StrV); ok {
				switch x.Op {
				case token.LSS:
					return boolc(sa.S < sb.S)
				case token.GTR:
					return boolc(sa.S > sb.S)
				case token.LEQ:
					return boolc(sa.S <= sb.S)
				case token.GEQ:
					return boolc(sa.S >= sb.S)
				}
			}
		}
		if _, ok := a.(SymStr); ok || func() bool { _, k := b.(SymStr); return k }() {
			// ordering of symbolic strings: an uninterpreted total order over string ids
			switch x.Op {
			case token.LSS:
				return Sym{Bool: true, S: "(strlt " + e.strID(a) + " " + e.strID(b) + ")"}
			case token.GTR:
				return Sym{Bool: true, S: "(strlt " + e.strID(b) + " " + e.strID(a) + ")"}
			}
		}
		panic(fmt.Sprintf("binop %s on %T,%T", x.Op, a, b))
	}
	switch x.Op {
	case token.ADD:
		return Sym{S: e.wrap1(x.Type(), tAdd(as.S, bs.S))}
	case token.SUB:
		return Sym{S: e.wrap1(x.Type(), tSub(as.S, bs.S))}
	case token.MUL:
		t := tMul(as.S, bs.S)
		return Sym{S: e.wrap(x.Type(), t)}
	case token.LSS:
		return Sym{Bool: true, S: tCmp("<", as.S, bs.S)}
	case token.LEQ:
		return Sym{Bool: true, S: tCmp("<=", as.S, bs.S)}
	case token.GTR:
		return Sym{Bool: true, S: tCmp(">", as.S, bs.S)}
	case token.GEQ:
		return Sym{Bool: true, S: tCmp(">=", as.S, bs.S)}
	case token.EQL:
		if as.Bool {
			return Sym{Bool: true, S: "(= " + as.S + " " + bs.S + ")"}
		}
		return Sym{Bool: true, S: tEq(as.S, bs.S)}
	case token.NEQ:
		if as.Bool {
			return Sym{Bool: true, S: "(not (= " + as.S + " " + bs.S + "))"}
		}
		return Sym{Bool: true, S: tNot(tEq(as.S, bs.S))}
	case token.SHR:
		if k, ok := asConst(bs.S); ok && k.IsInt64() && k.Int64() < 256 {
			return Sym{S: "(div " + as.S + " " + new(big.Int).Lsh(big.NewInt(1), uint(k.Int64())).String() + ")"}
		}
	case token.SHL:
		if k, ok := asConst(bs.S); ok && k.IsInt64() && k.Int64() < 256 {
			return Sym{S: e.wrap(x.Type(), tMul(as.S, new(big.Int).Lsh(big.NewInt(1), uint(k.Int64())).String()))}
		}
	case token.LAND, token.AND:
		if as.Bool {
			return Sym{Bool: true, S: tAnd(as.S, bs.S)}
		}
		// x & (2^k - 1) on non-negative x
		if m, ok := asConst(bs.S); ok {
			m1 := new(big.Int).Add(m, big.NewInt(1))
			if m.Sign() >= 0 && new(big.Int).And(m, m1).Sign() == 0 {
				if _, signed, _ := intKind(x.Type()); !signed {
					return Sym{S: "(mod " + as.S + " " + m1.String() + ")"}
				}
			}
		}
	case token.OR, token.LOR:
		if as.Bool {
			return Sym{Bool: true, S: tOr(as.S, bs.S)}
		}
	case token.XOR:
		if as.Bool {
			return Sym{Bool: true, S: "(xor " + as.S + " " + bs.S + ")"}
		}
	}
	panic("binop " + x.Op.String() + " on symbolic integers")
}

func isNilish(v Val) (bool, bool) {
	switch t := v.(type) {
	case BytesV:
		return t.Nil, true
	case MarshaledV:
		return false, true
	case SliceV:
		return t.ID == 0 && t.SymLen == "", true
	case Ptr:
		return t.ID == 0 && t.Glob == nil, true
	case Closure:
		return t.Fn == nil, true
	case IfaceV:
		if t.T == nil {
			return true, true
		}
	}
	return false, false
}

var _ = strings.Contains

// regionEnabled: state merging applies to comdex code, not to the harness's own control flow.
func (e *Exec) regionEnabled(fn *ssa.Function) bool {
	if e.noRegion || e.initMode {
		return false
	}
	for p := fn; p != nil; p = p.Parent() {
		n := p.Name()
		if strings.HasPrefix(n, "VP_") || strings.HasPrefix(n, "vp") {
			return false
		}
		if p.Pkg != nil && strings.HasSuffix(p.Pkg.Pkg.Path(), "/zzvp") {
			return false
		}
	}
	return true
}

// resolveIface forks on the nil-ness of a merged interface value held in the register of operand v and re-executes.
func (e *Exec) resolveIface(s *State, f *Frame, v ssa.Value, iv IfaceV) []*State {
	if _, isReg := f.Regs[v]; !isReg {
		panic("maybe-nil interface outside a register")
	}
	return e.fork(s, iv.NilIf, func(t *State) {
		tf := top(t)
		tf.Regs[v] = IfaceV{}
		tf.Idx--
	}, func(t *State) {
		tf := top(t)
		tf.Regs[v] = IfaceV{T: iv.T, V: iv.V}
		tf.Idx--
	})
}
