package main

import (
	"fmt"
	"go/types"
	"math/big"
	"strings"

	"golang.org/x/tools/go/ssa"
)

func (e *Exec) maybeFault(s *State) []*State {
	env := s.env()
	if env.FaultAt == "" {
		return nil
	}
	if env.faultSkip {
		env.faultSkip = false
		return nil
	}
	env.Accesses++
	cond := tEq(env.FaultAt, fmt.Sprint(env.Accesses))
	if e.sol.check(s.PC, cond) == "unsat" {
		return nil
	}
	t := s.clone()
	t.PC = append(t.PC, cond)
	e.startPanic(t, IfaceV{T: types.Typ[types.String], V: StrV{"injected fault"}})
	s.PC = append(s.PC, tNot(cond))
	top(s).Idx--
	s.env().faultSkip = true
	e.stats["fault-points"]++
	return []*State{t, s}
}

// invokeIntrinsic handles method calls on abstract environment objects. Returns handled=false if not an env object.
func (e *Exec) invokeIntrinsic(s *State, f *Frame, x *ssa.Call, recv Val, method string, args []Val) ([]*State, bool, bool) {
	switch r := recv.(type) {
	case StoreV:
		switch method {
		case "Get", "Has", "Set", "Delete":
			if fk := e.maybeFault(s); fk != nil {
				return fk, false, true
			}
		}
		switch method {
		case "Get":
			f.Regs[x] = e.storeGet(s, r, e.toBytesV(s, args[0]))
			return nil, false, true
		case "Has":
			g := e.storeGet(s, r, e.toBytesV(s, args[0]))
			f.Regs[x] = Sym{Bool: true, S: g.presentTerm()}
			return nil, false, true
		case "Set":
			key := fullKey(r, e.toBytesV(s, args[0]))
			env := s.env()
			val := args[1]
			if sl, ok := val.(SliceV); ok {
				val = e.toBytesV(s, sl)
			}
			env.L[r.Ctx].Stores[r.Name] = append(env.L[r.Ctx].Stores[r.Name], StoreEntry{Key: key, Present: "true", Val: val})
			e.stats["store-set"]++
			return nil, false, true
		case "Delete":
			key := fullKey(r, e.toBytesV(s, args[0]))
			env := s.env()
			env.L[r.Ctx].Stores[r.Name] = append(env.L[r.Ctx].Stores[r.Name], StoreEntry{Key: key, Present: "false", Val: BytesV{Nil: true}})
			return nil, false, true
		case "Iterator", "ReverseIterator":
			if a, ok := args[0].(BytesV); ok && !a.Nil {
				panic("range iterator with explicit bounds")
			}
			ents := e.liveEntries(s, r, BytesV{})
			if method == "ReverseIterator" {
				for i, j := 0, len(ents)-1; i < j; i, j = i+1, j-1 {
					ents[i], ents[j] = ents[j], ents[i]
				}
			}
			p := e.alloc(s, IterState{Ents: ents})
			f.Regs[x] = IfaceV{T: x.Type(), V: IterV{p.ID}}
			return nil, false, true
		}
	case CodecV:
		switch method {
		case "MustMarshal", "Marshal", "MustMarshalLengthPrefixed", "MustMarshalJSON":
			iv := args[0].(IfaceV)
			p := iv.V.(Ptr)
			v := MarshaledV{T: iv.T.(*types.Pointer).Elem(), V: e.load(s, p)}
			if method == "Marshal" {
				f.Regs[x] = Tuple{v, IfaceV{}}
			} else {
				f.Regs[x] = v
			}
			return nil, false, true
		case "MustUnmarshal", "Unmarshal", "MustUnmarshalLengthPrefixed", "MustUnmarshalJSON":
			iv := args[1].(IfaceV)
			p := iv.V.(Ptr)
			want := iv.T.(*types.Pointer).Elem()
			setErr := func() {
				if method == "Unmarshal" {
					f.Regs[x] = IfaceV{}
				}
			}
			switch a0 := args[0].(type) {
			case GetResult:
				v, ok := e.tryUnmarshalGet(s, a0, want)
				if !ok {
					// the aliasing candidates cannot be merged into one value (e.g. slices of different shape): decide the
					// newest candidate's key equality by forking and retry with the narrowed candidate list
					if len(a0.Ents) < 2 {
						panic("unmarshal: candidates cannot be merged")
					}
					op := x.Call.Args[0]
					if _, isReg := f.Regs[op]; !isReg {
						panic("unmarshal: store read result not in a register")
					}
					e.stats["alias-forks"]++
					return e.fork(s, a0.Conds[0], func(t *State) {
						tf := top(t)
						tf.Regs[op] = GetResult{Conds: []string{"true"}, Ents: []StoreEntry{a0.Ents[0]}}
						tf.Idx--
					}, func(t *State) {
						tf := top(t)
						tf.Regs[op] = GetResult{Conds: a0.Conds[1:], Ents: a0.Ents[1:]}
						tf.Idx--
					}), false, true
				}
				e.store(s, p, v)
				setErr()
				return nil, false, true
			case MarshaledV:
				var v Val
				if a0.Lazy != nil {
					v = e.materialise(s, a0.Lazy, want)
				} else {
					if !types.Identical(a0.T, want) {
						panic("unmarshal type mismatch " + a0.T.String() + " vs " + want.String())
					}
					v = a0.V
				}
				e.store(s, p, v)
				setErr()
				return nil, false, true
			case BytesV:
				if a0.Nil || len(a0.Segs) == 0 {
					// unmarshalling nil/empty bytes yields the zero message
					e.store(s, p, e.zero(want))
					setErr()
					return nil, false, true
				}
			}
			panic(fmt.Sprintf("unmarshal of %T", args[0]))
		}
	case BankV:
		cid := args[0].(CtxV).ID
		switch method {
		case "SendCoinsFromAccountToModule", "SendCoinsFromModuleToAccount", "SendCoinsFromModuleToModule", "SendCoins", "MintCoins", "BurnCoins":
			if fk := e.maybeFault(s); fk != nil {
				return fk, false, true
			}
		}
		switch method {
		case "SendCoinsFromAccountToModule":
			fk, d := e.transfer(s, x, cid, addrTerm(args[1]), e.moduleAddr(args[2]), e.coinsList(s, args[3]), false, false)
			return fk, d, true
		case "SendCoinsFromModuleToAccount":
			fk, d := e.transfer(s, x, cid, e.moduleAddr(args[1]), addrTerm(args[2]), e.coinsList(s, args[3]), false, false)
			return fk, d, true
		case "SendCoinsFromModuleToModule":
			fk, d := e.transfer(s, x, cid, e.moduleAddr(args[1]), e.moduleAddr(args[2]), e.coinsList(s, args[3]), false, false)
			return fk, d, true
		case "SendCoins":
			fk, d := e.transfer(s, x, cid, addrTerm(args[1]), addrTerm(args[2]), e.coinsList(s, args[3]), false, false)
			return fk, d, true
		case "MintCoins":
			fk, d := e.transfer(s, x, cid, "", e.moduleAddr(args[1]), e.coinsList(s, args[2]), true, false)
			return fk, d, true
		case "BurnCoins":
			fk, d := e.transfer(s, x, cid, e.moduleAddr(args[1]), "", e.coinsList(s, args[2]), false, true)
			return fk, d, true
		case "InputOutputCoins":
			// inputs / outputs are the model records built by banktypes.NewInput / NewOutput (address value, coins).
			// SDK semantics: every input is debited first (all must be funded), then every output credited.
			if fk := e.maybeFault(s); fk != nil {
				return fk, false, true
			}
			ins := e.sliceElems(s, args[1].(SliceV))
			outs := e.sliceElems(s, args[2].(SliceV))
			type mv struct {
				addr  string
				coins [][2]string
			}
			var debit, credit []mv
			for _, v := range ins {
				st := v.(StructV)
				debit = append(debit, mv{addrTerm(st.F[0]), e.coinsList(s, st.F[1])})
			}
			for _, v := range outs {
				st := v.(StructV)
				credit = append(credit, mv{addrTerm(st.F[0]), e.coinsList(s, st.F[1])})
			}
			// funding conditions, debits of the same (address term, denom) accumulate
			acc := map[string]string{}
			var conds []string
			for _, d := range debit {
				for _, c := range d.coins {
					k := d.addr + "|" + c[0]
					prev, ok := acc[k]
					if !ok {
						prev = "0"
					}
					acc[k] = tAdd(prev, c[1])
					conds = append(conds, tCmp(">", c[1], "0"), tCmp(">=", e.balance(s, cid, d.addr, c[0]), acc[k]))
				}
			}
			fk := e.fork(s, tAnd(conds...), func(n *State) {
				for _, d := range debit {
					for _, c := range d.coins {
						e.setBal(n, cid, d.addr, c[0], tSub(e.balance(n, cid, d.addr, c[0]), c[1]))
					}
				}
				for _, d := range credit {
					for _, c := range d.coins {
						e.setBal(n, cid, d.addr, c[0], tAdd(e.balance(n, cid, d.addr, c[0]), c[1]))
					}
				}
				top(n).Regs[x] = IfaceV{}
			}, func(n *State) { top(n).Regs[x] = errIface() })
			return fk, false, true
		case "GetBalance", "SpendableCoin":
			denom := e.strID(args[2])
			f.Regs[x] = StructV{[]Val{args[2], BigV{T: e.balance(s, cid, addrTerm(args[1]), denom)}}}
			return nil, false, true
		case "GetSupply":
			f.Regs[x] = StructV{[]Val{args[1], BigV{T: e.supply(s, e.strID(args[1]), -1)}}}
			return nil, false, true
		case "HasBalance":
			c := args[2].(StructV)
			f.Regs[x] = Sym{Bool: true, S: tCmp(">=", e.balance(s, cid, addrTerm(args[1]), e.strID(c.F[0])), c.F[1].(BigV).T)}
			return nil, false, true
		case "BlockedAddr":
			f.Regs[x] = boolc(false)
			return nil, false, true
		}
	case AccountKV:
		switch method {
		case "GetModuleAddress":
			f.Regs[x] = BytesV{Segs: []Seg{{Kind: "addr", T: e.moduleAddr(args[0])}}}
			return nil, false, true
		case "GetModuleAccount":
			f.Regs[x] = IfaceV{T: x.Type(), V: OpaqueV{"modacc"}}
			return nil, false, true
		}
	case IterV:
		it := s.Heap[r.ID].(IterState)
		switch method {
		case "Valid":
			f.Regs[x] = boolc(it.Pos < len(it.Ents))
		case "Next":
			it.Pos++
			s.Heap[r.ID] = it
		case "Value":
			f.Regs[x] = it.Ents[it.Pos].Val
		case "Key":
			f.Regs[x] = it.Ents[it.Pos].Key
		case "Close":
			f.Regs[x] = IfaceV{}
		case "Error":
			f.Regs[x] = IfaceV{}
		default:
			panic("iter method " + method)
		}
		return nil, false, true
	case OpaqueV:
		if method == "Error" || method == "String" {
			f.Regs[x] = SymStr{T: e.sol.fresh("errstr", false)}
			return nil, false, true
		}
		// gas meter, event manager, logger, module account: every method is a no-op returning zero values
		sig := x.Call.Method.Type().(*types.Signature)
		if sig.Results().Len() == 1 {
			f.Regs[x] = e.zeroOrOpaque(sig.Results().At(0).Type())
		} else if sig.Results().Len() > 1 {
			f.Regs[x] = e.zero(sig.Results())
		}
		return nil, false, true
	}
	return nil, false, false
}

func (e *Exec) zeroOrOpaque(t types.Type) Val {
	if _, ok := t.Underlying().(*types.Interface); ok {
		return IfaceV{T: t, V: OpaqueV{t.String()}}
	}
	return e.zero(t)
}

// params subspace: parameters live in the pseudo store "params/<module>", one entry per parameter, keyed by the
// parameter's key bytes. Convention used (holds for the comdex modules): the key of a parameter is the name of its
// struct field. Unset parameters are lazily havocked like any other pre-state record.
func (e *Exec) subspace(s *State, f *Frame, x *ssa.Call, method string, args []Val) ([]*State, bool) {
	sub := args[0].(OpaqueV)
	mod := strings.TrimPrefix(sub.What, "subspace:")
	name := "params/" + mod
	fieldKey := func(n string) BytesV { return BytesV{Segs: []Seg{{Kind: "c", B: []byte(n)}}} }
	switch method {
	case "GetParamSet", "GetParamSetIfExists":
		cid := args[1].(CtxV).ID
		iv := args[2].(IfaceV)
		p := iv.V.(Ptr)
		st, ok := iv.T.(*types.Pointer).Elem().Underlying().(*types.Struct)
		if !ok {
			panic("GetParamSet into a non-struct")
		}
		cur := e.load(s, p).(StructV)
		nf := append([]Val{}, cur.F...)
		for i := 0; i < st.NumFields(); i++ {
			g := e.storeGet(s, StoreV{Name: name, Ctx: cid}, fieldKey(st.Field(i).Name()))
			nf[i] = e.unmarshalGet(s, g, st.Field(i).Type())
		}
		e.store(s, p, StructV{nf})
	case "SetParamSet":
		cid := args[1].(CtxV).ID
		iv := args[2].(IfaceV)
		p := iv.V.(Ptr)
		st := iv.T.(*types.Pointer).Elem().Underlying().(*types.Struct)
		cur := e.load(s, p).(StructV)
		env := s.env()
		for i := 0; i < st.NumFields(); i++ {
			env.L[cid].Stores[name] = append(env.L[cid].Stores[name], StoreEntry{Key: fieldKey(st.Field(i).Name()), Present: "true", Val: MarshaledV{T: st.Field(i).Type(), V: cur.F[i]}})
		}
	case "Get", "GetIfExists":
		cid := args[1].(CtxV).ID
		key := e.toBytesV(s, args[2])
		iv := args[3].(IfaceV)
		p := iv.V.(Ptr)
		g := e.storeGet(s, StoreV{Name: name, Ctx: cid}, key)
		e.store(s, p, e.unmarshalGet(s, g, iv.T.(*types.Pointer).Elem()))
	case "Set":
		cid := args[1].(CtxV).ID
		key := e.toBytesV(s, args[2])
		iv := args[3].(IfaceV)
		var v Val = iv.V
		t := iv.T
		if pt, ok := iv.T.(*types.Pointer); ok {
			v = e.load(s, iv.V.(Ptr))
			t = pt.Elem()
		}
		env := s.env()
		env.L[cid].Stores[name] = append(env.L[cid].Stores[name], StoreEntry{Key: key, Present: "true", Val: MarshaledV{T: t, V: v}})
	case "Has":
		cid := args[1].(CtxV).ID
		g := e.storeGet(s, StoreV{Name: name, Ctx: cid}, e.toBytesV(s, args[2]))
		f.Regs[x] = Sym{Bool: true, S: g.presentTerm()}
	case "HasKeyTable":
		f.Regs[x] = boolc(true)
	case "WithKeyTable":
		f.Regs[x] = sub
	default:
		panic("subspace method " + method)
	}
	return nil, false
}

func init() {
	vp := comdexPath + "/zzvp."
	sdkp := "github.com/cosmos/cosmos-sdk/types."
	// context
	reg(sdkp+"UnwrapSDKContext", func(e *Exec, s *State, f *Frame, x *ssa.Call, a []Val) ([]*State, bool) {
		return ret(f, x, a[0].(IfaceV).V.(CtxV))
	})
	reg(sdkp+"WrapSDKContext", func(e *Exec, s *State, f *Frame, x *ssa.Call, a []Val) ([]*State, bool) {
		return ret(f, x, IfaceV{T: x.Type(), V: a[0].(CtxV)})
	})
	cx := "(github.com/cosmos/cosmos-sdk/types.Context)."
	reg(cx+"KVStore", func(e *Exec, s *State, f *Frame, x *ssa.Call, a []Val) ([]*State, bool) {
		k := a[1].(IfaceV).V.(StoreKeyV)
		return ret(f, x, IfaceV{T: x.Type(), V: StoreV{Name: k.Name, Ctx: a[0].(CtxV).ID}})
	})
	reg("github.com/cosmos/cosmos-sdk/store/prefix.NewStore", func(e *Exec, s *State, f *Frame, x *ssa.Call, a []Val) ([]*State, bool) {
		st := a[0].(IfaceV).V.(StoreV)
		pre := e.toBytesV(s, a[1])
		st.Prefix = BytesV{Segs: append(append([]Seg{}, st.Prefix.Segs...), pre.Segs...)}
		return ret(f, x, st)
	})
	for _, m := range []string{"Get", "Has", "Set", "Delete", "Iterator", "ReverseIterator"} {
		m := m
		reg("(github.com/cosmos/cosmos-sdk/store/prefix.Store)."+m, func(e *Exec, s *State, f *Frame, x *ssa.Call, a []Val) ([]*State, bool) {
			fk, d, ok := e.invokeIntrinsic(s, f, x, a[0], m, a[1:])
			if !ok {
				panic("prefix store method " + m)
			}
			return fk, d
		})
	}
	reg(cx+"BlockHeight", func(e *Exec, s *State, f *Frame, x *ssa.Call, a []Val) ([]*State, bool) {
		env := s.env()
		if h := a[0].(CtxV).Height; h != "" {
			return ret(f, x, Sym{S: h})
		}
		if env.Height == "" {
			env.Height = e.sol.fresh("height", false)
			e.sol.axiom("(and (>= " + env.Height + " 1) (< " + env.Height + " 1000000000000))")
		}
		return ret(f, x, Sym{S: env.Height})
	})
	reg(cx+"BlockTime", func(e *Exec, s *State, f *Frame, x *ssa.Call, a []Val) ([]*State, bool) {
		env := s.env()
		if t := a[0].(CtxV).Time; t != "" {
			return ret(f, x, TimeV{T: t})
		}
		if env.Now == "" {
			env.Now = e.sol.fresh("now", false)
			e.sol.axiom("(and (>= " + env.Now + " 0) (< " + env.Now + " 4000000000))")
		}
		return ret(f, x, TimeV{T: env.Now})
	})
	reg(cx+"WithBlockTime", func(e *Exec, s *State, f *Frame, x *ssa.Call, a []Val) ([]*State, bool) {
		c := a[0].(CtxV)
		c.Time = a[1].(TimeV).T
		return ret(f, x, c)
	})
	reg(cx+"WithBlockHeight", func(e *Exec, s *State, f *Frame, x *ssa.Call, a []Val) ([]*State, bool) {
		c := a[0].(CtxV)
		c.Height = a[1].(Sym).S
		return ret(f, x, c)
	})
	reg(cx+"ChainID", func(e *Exec, s *State, f *Frame, x *ssa.Call, a []Val) ([]*State, bool) {
		env := s.env()
		if env.ChainID == nil {
			env.ChainID = SymStr{T: e.sol.fresh("chainid", false)}
		}
		return ret(f, x, env.ChainID)
	})
	reg(cx+"IsCheckTx", func(e *Exec, s *State, f *Frame, x *ssa.Call, a []Val) ([]*State, bool) {
		return ret(f, x, boolc(false))
	})
	reg(cx+"IsReCheckTx", func(e *Exec, s *State, f *Frame, x *ssa.Call, a []Val) ([]*State, bool) {
		return ret(f, x, boolc(false))
	})
	for _, m := range []string{"WithGasMeter", "WithEventManager", "WithBlockGasMeter", "WithValue", "WithContext"} {
		reg(cx+m, func(e *Exec, s *State, f *Frame, x *ssa.Call, a []Val) ([]*State, bool) { return ret(f, x, a[0]) })
	}
	reg(cx+"Context", func(e *Exec, s *State, f *Frame, x *ssa.Call, a []Val) ([]*State, bool) {
		return ret(f, x, IfaceV{T: x.Type(), V: a[0].(CtxV)})
	})
	reg(sdkp+"KVStorePrefixIterator", func(e *Exec, s *State, f *Frame, x *ssa.Call, a []Val) ([]*State, bool) {
		st := a[0].(IfaceV).V.(StoreV)
		ents := e.liveEntries(s, st, e.toBytesV(s, a[1]))
		p := e.alloc(s, IterState{Ents: ents})
		return ret(f, x, IfaceV{T: x.Type(), V: IterV{p.ID}})
	})
	reg(sdkp+"KVStoreReversePrefixIterator", func(e *Exec, s *State, f *Frame, x *ssa.Call, a []Val) ([]*State, bool) {
		st := a[0].(IfaceV).V.(StoreV)
		ents := e.liveEntries(s, st, e.toBytesV(s, a[1]))
		for i, j := 0, len(ents)-1; i < j; i, j = i+1, j-1 {
			ents[i], ents[j] = ents[j], ents[i]
		}
		p := e.alloc(s, IterState{Ents: ents})
		return ret(f, x, IfaceV{T: x.Type(), V: IterV{p.ID}})
	})
	reg(cx+"CacheContext", func(e *Exec, s *State, f *Frame, x *ssa.Call, a []Val) ([]*State, bool) {
		env := s.env()
		parent := a[0].(CtxV).ID
		env.NextCtx++
		child := env.NextCtx
		env.L[child] = copyLayer(env.L[parent])
		pc := a[0].(CtxV)
		return ret(f, x, Tuple{CtxV{ID: child, Time: pc.Time, Height: pc.Height}, WriteCacheV{child, parent}})
	})
	for _, m := range []string{"GasMeter", "EventManager", "Logger", "BlockGasMeter"} {
		reg(cx+m, func(e *Exec, s *State, f *Frame, x *ssa.Call, a []Val) ([]*State, bool) {
			t := x.Type()
			if _, ok := t.Underlying().(*types.Interface); ok {
				return ret(f, x, IfaceV{T: t, V: OpaqueV{"ctxobj"}})
			}
			return ret(f, x, Ptr{ID: -1}) // *EventManager: opaque pointer
		})
	}
	noop := func(e *Exec, s *State, f *Frame, x *ssa.Call, a []Val) ([]*State, bool) {
		sig := x.Call.Signature()
		if sig.Results().Len() == 1 {
			f.Regs[x] = e.zeroOrOpaque(sig.Results().At(0).Type())
		} else if sig.Results().Len() > 1 {
			f.Regs[x] = e.zero(sig.Results())
		}
		return nil, false
	}
	emit := func(e *Exec, s *State, f *Frame, x *ssa.Call, a []Val) ([]*State, bool) {
		s.env().Events = append(s.env().Events, Event{Type: fmt.Sprint(len(s.env().Events))})
		return noop(e, s, f, x, a)
	}
	reg("(*github.com/cosmos/cosmos-sdk/types.EventManager).EmitEvents", emit)
	reg("(*github.com/cosmos/cosmos-sdk/types.EventManager).EmitEvent", emit)
	reg("(*github.com/cosmos/cosmos-sdk/types.EventManager).EmitTypedEvent", emit)
	reg("(*github.com/cosmos/cosmos-sdk/types.EventManager).EmitTypedEvents", emit)
	reg(sdkp+"NewEvent", func(e *Exec, s *State, f *Frame, x *ssa.Call, a []Val) ([]*State, bool) {
		return ret(f, x, e.zero(x.Type()))
	})
	reg(sdkp+"NewAttribute", func(e *Exec, s *State, f *Frame, x *ssa.Call, a []Val) ([]*State, bool) {
		return ret(f, x, e.zero(x.Type()))
	})
	reg("github.com/cosmos/cosmos-sdk/telemetry.ModuleMeasureSince", noop)
	reg("github.com/cosmos/cosmos-sdk/telemetry.IncrCounter", noop)
	reg("time.Now", func(e *Exec, s *State, f *Frame, x *ssa.Call, a []Val) ([]*State, bool) {
		n := e.newInput("wallclock", "time.Now", false)
		e.stats["env-choice:time.Now"]++
		return ret(f, x, TimeV{T: n})
	})
	freshStr := func(e *Exec, s *State, f *Frame, x *ssa.Call, a []Val) ([]*State, bool) {
		return ret(f, x, SymStr{T: e.sol.fresh("fmt", false)})
	}
	// injective formatting of integers (keys and denominations are built this way)
	fmtInt := func(e *Exec, s *State, f *Frame, x *ssa.Call, a []Val) ([]*State, bool) {
		if c, ok := asConst(a[0].(Sym).S); ok {
			return ret(f, x, StrV{c.String()})
		}
		return ret(f, x, SymStr{T: "(strofint " + a[0].(Sym).S + ")"})
	}
	reg("strconv.FormatUint", fmtInt)
	reg("strconv.FormatInt", fmtInt)
	reg("strconv.Itoa", fmtInt)
	reg("strconv.ParseUint", func(e *Exec, s *State, f *Frame, x *ssa.Call, a []Val) ([]*State, bool) {
		if sv, ok := a[0].(StrV); ok {
			n, ok := new(big.Int).SetString(sv.S, 10)
			if ok && n.Sign() >= 0 && n.BitLen() <= 64 {
				return ret(f, x, Tuple{Sym{S: n.String()}, IfaceV{}})
			}
			return ret(f, x, Tuple{intc(0), errIface()})
		}
		n := e.sol.fresh("parsed", false)
		okv := e.sol.fresh("parse_ok", true)
		s.PC = append(s.PC, "(and (>= "+n+" 0) (< "+n+" 18446744073709551616))")
		return e.fork(s, okv, func(t *State) { top(t).Regs[x] = Tuple{Sym{S: n}, IfaceV{}} }, func(t *State) { top(t).Regs[x] = Tuple{intc(0), errIface()} }), false
	})
	reg("(cosmossdk.io/math.Int).String", func(e *Exec, s *State, f *Frame, x *ssa.Call, a []Val) ([]*State, bool) {
		return ret(f, x, SymStr{T: "(strofint " + a[0].(BigV).T + ")"})
	})
	reg("(cosmossdk.io/math.LegacyDec).String", func(e *Exec, s *State, f *Frame, x *ssa.Call, a []Val) ([]*State, bool) {
		return ret(f, x, SymStr{T: "(strofdec " + a[0].(BigV).T + ")"})
	})
	reg("(time.Time).String", freshStr)
	reg("(time.Duration).String", freshStr)
	reg("(github.com/cosmos/cosmos-sdk/types.Coin).String", freshStr)
	reg("(github.com/cosmos/cosmos-sdk/types.Coins).String", freshStr)
	reg("(github.com/cosmos/cosmos-sdk/types.AccAddress).String", func(e *Exec, s *State, f *Frame, x *ssa.Call, a []Val) ([]*State, bool) {
		b := e.toBytesV(s, a[0])
		if b.Nil || len(b.Segs) == 0 {
			return ret(f, x, StrV{""})
		}
		return ret(f, x, SymStr{T: "(bech32of " + addrTerm(b) + ")"})
	})
	reg("(time.Time).Add", func(e *Exec, s *State, f *Frame, x *ssa.Call, a []Val) ([]*State, bool) {
		d := a[1].(Sym).S
		var secs string
		if c, ok := asConst(d); ok {
			secs = smtInt(new(big.Int).Quo(c, big.NewInt(1000000000)))
		} else {
			secs = "(div " + d + " 1000000000)"
		}
		return ret(f, x, TimeV{T: tAdd(a[0].(TimeV).T, secs)})
	})
	reg("(time.Time).Sub", func(e *Exec, s *State, f *Frame, x *ssa.Call, a []Val) ([]*State, bool) {
		return ret(f, x, Sym{S: tMul(tSub(a[0].(TimeV).T, a[1].(TimeV).T), "1000000000")})
	})
	reg("(time.Time).After", func(e *Exec, s *State, f *Frame, x *ssa.Call, a []Val) ([]*State, bool) {
		return ret(f, x, Sym{Bool: true, S: tCmp(">", a[0].(TimeV).T, a[1].(TimeV).T)})
	})
	reg("(time.Time).Before", func(e *Exec, s *State, f *Frame, x *ssa.Call, a []Val) ([]*State, bool) {
		return ret(f, x, Sym{Bool: true, S: tCmp("<", a[0].(TimeV).T, a[1].(TimeV).T)})
	})
	reg("(time.Time).Equal", func(e *Exec, s *State, f *Frame, x *ssa.Call, a []Val) ([]*State, bool) {
		return ret(f, x, Sym{Bool: true, S: tEq(a[0].(TimeV).T, a[1].(TimeV).T)})
	})
	reg("(time.Time).IsZero", func(e *Exec, s *State, f *Frame, x *ssa.Call, a []Val) ([]*State, bool) {
		return ret(f, x, Sym{Bool: true, S: tEq(a[0].(TimeV).T, "(- 62135596800)")})
	})
	reg("(time.Time).Unix", func(e *Exec, s *State, f *Frame, x *ssa.Call, a []Val) ([]*State, bool) {
		return ret(f, x, Sym{S: a[0].(TimeV).T})
	})
	reg("(time.Time).UTC", func(e *Exec, s *State, f *Frame, x *ssa.Call, a []Val) ([]*State, bool) { return ret(f, x, a[0]) })
	reg("time.Unix", func(e *Exec, s *State, f *Frame, x *ssa.Call, a []Val) ([]*State, bool) {
		return ret(f, x, TimeV{T: a[0].(Sym).S})
	})
	reg("(time.Duration).Seconds", func(e *Exec, s *State, f *Frame, x *ssa.Call, a []Val) ([]*State, bool) {
		return ret(f, x, FloatV{T: "(/ (to_real " + a[0].(Sym).S + ") 1000000000.0)"})
	})
	// bank Input / Output records: modelled as (address value, coins); only InputOutputCoins reads them
	for _, n := range []string{"NewInput", "NewOutput"} {
		reg("github.com/cosmos/cosmos-sdk/x/bank/types."+n, func(e *Exec, s *State, f *Frame, x *ssa.Call, a []Val) ([]*State, bool) {
			return ret(f, x, StructV{[]Val{a[0], a[1]}})
		})
	}
	reg(sdkp+"Uint64ToBigEndian", func(e *Exec, s *State, f *Frame, x *ssa.Call, a []Val) ([]*State, bool) {
		return ret(f, x, BytesV{Segs: []Seg{{Kind: "be64", T: a[0].(Sym).S}}})
	})
	// the only user of encoding/binary.PutUint64 in comdex: 8 big-endian bytes of uint64(num) (modelled as a whole)
	reg(comdexPath+"/x/bandoracle/types.int64ToBytes", func(e *Exec, s *State, f *Frame, x *ssa.Call, a []Val) ([]*State, bool) {
		n := a[0].(Sym).S
		return ret(f, x, BytesV{Segs: []Seg{{Kind: "be64", T: tIte(tCmp("<", n, "0"), tAdd(n, "18446744073709551616"), n)}}})
	})
	reg(sdkp+"BigEndianToUint64", func(e *Exec, s *State, f *Frame, x *ssa.Call, a []Val) ([]*State, bool) {
		b := e.toBytesV(s, a[0])
		segs := normSegs(b.Segs)
		if len(segs) == 1 && segs[0].Kind == "be64" {
			return ret(f, x, Sym{S: segs[0].T})
		}
		if len(segs) == 0 {
			return ret(f, x, intc(0))
		}
		if len(segs) == 1 && segs[0].Kind == "c" && len(segs[0].B) == 8 {
			return ret(f, x, Sym{S: new(big.Int).SetBytes(segs[0].B).String()})
		}
		panic("BigEndianToUint64 of abstract bytes")
	})
	reg(sdkp+"AccAddressFromBech32", func(e *Exec, s *State, f *Frame, x *ssa.Call, a []Val) ([]*State, bool) {
		id := e.strID(a[0])
		okv := "(bech32ok " + id + ")"
		e.noteAddr(id)
		return e.fork(s, okv, func(n *State) {
			top(n).Regs[x] = Tuple{BytesV{Segs: []Seg{{Kind: "addr", T: "(addrof " + id + ")"}}}, IfaceV{}}
		}, func(n *State) {
			top(n).Regs[x] = Tuple{BytesV{Nil: true}, errIface()}
		}), false
	})
	reg(sdkp+"MustAccAddressFromBech32", func(e *Exec, s *State, f *Frame, x *ssa.Call, a []Val) ([]*State, bool) {
		id := e.strID(a[0])
		okv := "(bech32ok " + id + ")"
		e.noteAddr(id)
		return e.fork(s, okv, func(n *State) {
			top(n).Regs[x] = BytesV{Segs: []Seg{{Kind: "addr", T: "(addrof " + id + ")"}}}
		}, func(n *State) {
			e.startPanic(n, errIface())
		}), false
	})
	reg("(github.com/cosmos/cosmos-sdk/types.AccAddress).Equals", func(e *Exec, s *State, f *Frame, x *ssa.Call, a []Val) ([]*State, bool) {
		ab := e.toBytesV(s, a[0])
		bi, ok := a[1].(IfaceV)
		if !ok || bi.T == nil {
			return ret(f, x, boolc(ab.Nil || len(ab.Segs) == 0))
		}
		bb := e.toBytesV(s, bi.V)
		if ab.Nil || len(ab.Segs) == 0 || bb.Nil || len(bb.Segs) == 0 {
			return ret(f, x, boolc((ab.Nil || len(ab.Segs) == 0) == (bb.Nil || len(bb.Segs) == 0)))
		}
		return ret(f, x, Sym{Bool: true, S: tEq(addrTerm(ab), addrTerm(bb))})
	})
	reg("(github.com/cosmos/cosmos-sdk/types.AccAddress).Empty", func(e *Exec, s *State, f *Frame, x *ssa.Call, a []Val) ([]*State, bool) {
		ab := e.toBytesV(s, a[0])
		return ret(f, x, boolc(ab.Nil || len(ab.Segs) == 0))
	})
	reg("(github.com/cosmos/cosmos-sdk/types.AccAddress).Bytes", func(e *Exec, s *State, f *Frame, x *ssa.Call, a []Val) ([]*State, bool) {
		return ret(f, x, a[0])
	})
	reg("github.com/cosmos/cosmos-sdk/x/auth/types.NewModuleAddress", func(e *Exec, s *State, f *Frame, x *ssa.Call, a []Val) ([]*State, bool) {
		return ret(f, x, BytesV{Segs: []Seg{{Kind: "addr", T: e.moduleAddr(a[0])}}})
	})
	reg("github.com/cosmos/cosmos-sdk/types/address.MustLengthPrefix", func(e *Exec, s *State, f *Frame, x *ssa.Call, a []Val) ([]*State, bool) {
		return ret(f, x, a[0])
	})
	reg("github.com/cosmos/cosmos-sdk/types/address.Module", func(e *Exec, s *State, f *Frame, x *ssa.Call, a []Val) ([]*State, bool) {
		// derived module addresses (pair escrow, pool reserve): injective in (module, derivation key)
		// variadic derivation keys: [][]byte
		var k BytesV
		if sl, ok := a[1].(SliceV); ok && sl.ID != 0 {
			for _, el := range e.sliceElems(s, sl) {
				k.Segs = append(k.Segs, e.toBytesV(s, el).Segs...)
				k.Segs = append(k.Segs, Seg{Kind: "c", B: []byte{0xff}})
			}
		}
		return ret(f, x, BytesV{Segs: []Seg{{Kind: "addr", T: e.derAddr(e.strID(a[0]), e.bytesID(s, k))}}})
	})
	reg("github.com/cosmos/cosmos-sdk/types/address.Derive", func(e *Exec, s *State, f *Frame, x *ssa.Call, a []Val) ([]*State, bool) {
		return ret(f, x, BytesV{Segs: []Seg{{Kind: "addr", T: "(deraddr2 " + e.bytesID(s, e.toBytesV(s, a[0])) + " " + e.bytesID(s, e.toBytesV(s, a[1])) + ")"}}})
	})
	reg(sdkp+"NewCoin", func(e *Exec, s *State, f *Frame, x *ssa.Call, a []Val) ([]*State, bool) {
		amt := a[1].(BigV)
		if amt.Nil {
			e.startPanic(s, errIface())
			return nil, false
		}
		return e.fork(s, tCmp(">=", amt.T, "0"), func(n *State) {
			top(n).Regs[x] = StructV{[]Val{a[0], amt}}
		}, func(n *State) {
			e.startPanic(n, IfaceV{T: runtimeErrT, V: OpaqueV{"negative coin amount"}})
		}), false
	})
	reg("runtime/debug.Stack", func(e *Exec, s *State, f *Frame, x *ssa.Call, a []Val) ([]*State, bool) { return ret(f, x, BytesV{}) })
	reg("fmt.Sprintf", func(e *Exec, s *State, f *Frame, x *ssa.Call, a []Val) ([]*State, bool) {
		// injective in (format, operands): an uninterpreted function chain over the operand ids
		t := e.strID(a[0])
		if sl, ok := a[1].(SliceV); ok && sl.ID != 0 {
			for _, el := range e.sliceElems(s, sl) {
				t = "(strcat " + t + " " + e.anyID(s, el) + ")"
			}
		}
		return ret(f, x, SymStr{T: t})
	})
	reg("fmt.Sprint", freshStr)
	reg("github.com/cosmos/gogoproto/proto.EnumName", func(e *Exec, s *State, f *Frame, x *ssa.Call, a []Val) ([]*State, bool) {
		return ret(f, x, SymStr{T: "(strofint " + a[1].(Sym).S + ")"})
	})
	reg("strings.Join", func(e *Exec, s *State, f *Frame, x *ssa.Call, a []Val) ([]*State, bool) {
		sl := a[0].(SliceV)
		if sl.SymLen != "" {
			return e.needLen(s, f, x.Call.Args[0], sl), false
		}
		els := e.sliceElems(s, sl)
		allC := true
		var parts []string
		for _, el := range els {
			if sv, ok := el.(StrV); ok {
				parts = append(parts, sv.S)
			} else {
				allC = false
			}
		}
		if sep, ok := a[1].(StrV); ok && allC {
			return ret(f, x, StrV{strings.Join(parts, sep.S)})
		}
		t := e.strID(a[1])
		for _, el := range els {
			t = "(strcat " + t + " " + e.strID(el) + ")"
		}
		return ret(f, x, SymStr{T: t})
	})
	reg("fmt.Println", noop)
	reg("fmt.Printf", noop)
	reg("fmt.Print", noop)
	reg("errors.New", func(e *Exec, s *State, f *Frame, x *ssa.Call, a []Val) ([]*State, bool) { return ret(f, x, errIface()) })
	reg("fmt.Errorf", func(e *Exec, s *State, f *Frame, x *ssa.Call, a []Val) ([]*State, bool) { return ret(f, x, errIface()) })
	for _, n := range []string{"cosmossdk.io/errors.Wrap", "cosmossdk.io/errors.Wrapf", "(*cosmossdk.io/errors.Error).Wrap", "(*cosmossdk.io/errors.Error).Wrapf",
		"github.com/pkg/errors.Wrap", "github.com/pkg/errors.Wrapf", "github.com/pkg/errors.New", "github.com/pkg/errors.Errorf",
		"google.golang.org/grpc/status.Error", "google.golang.org/grpc/status.Errorf", "github.com/cosmos/cosmos-sdk/types/errors.Wrap", "github.com/cosmos/cosmos-sdk/types/errors.Wrapf"} {
		nn := n
		reg(nn, func(e *Exec, s *State, f *Frame, x *ssa.Call, a []Val) ([]*State, bool) {
			// Wrap(nil, ...) == nil in cosmossdk.io/errors
			if strings.HasSuffix(nn, "errors.Wrap") || strings.HasSuffix(nn, "errors.Wrapf") {
				if iv, ok := a[0].(IfaceV); ok && iv.T == nil && !strings.HasPrefix(nn, "(*") {
					return ret(f, x, IfaceV{})
				}
			}
			return ret(f, x, errIface())
		})
	}
	reg("errors.Is", func(e *Exec, s *State, f *Frame, x *ssa.Call, a []Val) ([]*State, bool) {
		ia, ib := a[0].(IfaceV), a[1].(IfaceV)
		if ia.T == nil || ib.T == nil {
			return ret(f, x, boolc(ia.T == nil && ib.T == nil))
		}
		pa, ok1 := ia.V.(Ptr)
		pb, ok2 := ib.V.(Ptr)
		return ret(f, x, boolc(ok1 && ok2 && pa.ID == pb.ID && pa.Glob == pb.Glob))
	})
	reg("(*cosmossdk.io/errors.Error).Is", func(e *Exec, s *State, f *Frame, x *ssa.Call, a []Val) ([]*State, bool) {
		return ret(f, x, boolc(false))
	})
	// zzvp vocabulary that touches the environment
	reg(vp+"Wire", func(e *Exec, s *State, f *Frame, x *ssa.Call, a []Val) ([]*State, bool) {
		iv := a[0].(IfaceV)
		dst := iv.V.(Ptr)
		kt := iv.T.(*types.Pointer).Elem()
		kp := e.wire(s, kt)
		e.store(s, dst, e.load(s, kp))
		return nil, false
	})
	reg(vp+"Ctx", func(e *Exec, s *State, f *Frame, x *ssa.Call, a []Val) ([]*State, bool) {
		s.env()
		return ret(f, x, CtxV{})
	})
	reg(vp+"ClosedCtx", func(e *Exec, s *State, f *Frame, x *ssa.Call, a []Val) ([]*State, bool) {
		s.env().L[0].Closed = true
		return ret(f, x, CtxV{})
	})
	reg(vp+"ClosePrefix", func(e *Exec, s *State, f *Frame, x *ssa.Call, a []Val) ([]*State, bool) {
		name := a[0].(StrV).S
		e.checkStoreName(s, name)
		pre := e.toBytesV(s, a[1])
		for _, l := range s.env().L {
			np := map[string][]BytesV{}
			for k, v := range l.ClosedPrefixes {
				np[k] = v
			}
			np[name] = append(append([]BytesV{}, np[name]...), pre)
			l.ClosedPrefixes = np
		}
		e.stats["closed-prefix:"+name]++
		return nil, false
	})
	reg(vp+"EmptyCtx", func(e *Exec, s *State, f *Frame, x *ssa.Call, a []Val) ([]*State, bool) {
		env := s.env()
		env.NextCtx++
		env.L[env.NextCtx] = &Layer{Stores: map[string][]StoreEntry{}, Closed: true}
		return ret(f, x, CtxV{ID: env.NextCtx})
	})
	reg(vp+"AnyOf", func(e *Exec, s *State, f *Frame, x *ssa.Call, a []Val) ([]*State, bool) {
		iv := a[0].(IfaceV)
		e.recSink = &s.InSeq
		v := e.anyOf(s, iv.T.(*types.Pointer).Elem(), "in")
		e.recSink = nil
		e.store(s, iv.V.(Ptr), v)
		return nil, false
	})
	reg(vp+"AnyString", func(e *Exec, s *State, f *Frame, x *ssa.Call, a []Val) ([]*State, bool) {
		n := e.newInput("instr", "string", false)
		s.InSeq = append(s.InSeq, "string:"+n)
		return ret(f, x, SymStr{T: n})
	})
	reg(vp+"AnyAddr", func(e *Exec, s *State, f *Frame, x *ssa.Call, a []Val) ([]*State, bool) {
		n := e.newInput("inaddr", "addr", false)
		s.InSeq = append(s.InSeq, "addr:"+n)
		e.sol.axiom("(>= " + n + " 0)")
		return ret(f, x, BytesV{Segs: []Seg{{Kind: "addr", T: n}}})
	})
	reg(vp+"Mark", func(e *Exec, s *State, f *Frame, x *ssa.Call, a []Val) ([]*State, bool) {
		env := s.env()
		for cid, l := range env.L {
			env.Marked[cid] = len(l.Bank)
		}
		env.MarkSupply = len(env.Supply)
		env.MarkStores = map[string]int{}
		for name, ents := range env.L[0].Stores {
			n := 0
			for _, en := range ents {
				if !en.Pre {
					n++
				}
			}
			env.MarkStores[name] = n // number of write entries so far (lazily discovered pre-state entries do not count)
		}
		return nil, false
	})
	reg(vp+"ModuleAddr", func(e *Exec, s *State, f *Frame, x *ssa.Call, a []Val) ([]*State, bool) {
		return ret(f, x, BytesV{Segs: []Seg{{Kind: "addr", T: e.moduleAddr(a[0])}}})
	})
	reg(vp+"Balance", func(e *Exec, s *State, f *Frame, x *ssa.Call, a []Val) ([]*State, bool) {
		cid := a[0].(CtxV).ID
		return ret(f, x, BigV{T: e.balance(s, cid, addrTerm(a[1]), e.strID(a[2]))})
	})
	reg(vp+"BalanceDelta", func(e *Exec, s *State, f *Frame, x *ssa.Call, a []Val) ([]*State, bool) {
		addr, denom := addrTerm(a[0]), e.strID(a[1])
		now := e.balance(s, 0, addr, denom)
		env := s.env()
		saved := env.L[0].Bank
		env.L[0].Bank = saved[:env.Marked[0]]
		then := e.balance(s, 0, addr, denom)
		env.L[0].Bank = saved
		return ret(f, x, BigV{T: tSub(now, then)})
	})
	reg(vp+"SupplyDelta", func(e *Exec, s *State, f *Frame, x *ssa.Call, a []Val) ([]*State, bool) {
		denom := e.strID(a[0])
		return ret(f, x, BigV{T: tSub(e.supply(s, denom, -1), e.supply(s, denom, s.env().MarkSupply))})
	})
	reg(vp+"Supply", func(e *Exec, s *State, f *Frame, x *ssa.Call, a []Val) ([]*State, bool) {
		return ret(f, x, BigV{T: e.supply(s, e.strID(a[0]), -1)})
	})
	reg(vp+"SetBalance", func(e *Exec, s *State, f *Frame, x *ssa.Call, a []Val) ([]*State, bool) {
		e.setBal(s, 0, addrTerm(a[0]), e.strID(a[1]), a[2].(BigV).T)
		return nil, false
	})
	reg(vp+"BankTouched", func(e *Exec, s *State, f *Frame, x *ssa.Call, a []Val) ([]*State, bool) {
		// did the step (since Mark) write any balance of (addr, denom)?
		addr, denom := addrTerm(a[0]), e.strID(a[1])
		env := s.env()
		var cs []string
		for _, w := range env.L[0].Bank[env.Marked[0]:] {
			cs = append(cs, tAnd(tEq(addr, w.Addr), tEq(denom, w.Denom)))
		}
		return ret(f, x, Sym{Bool: true, S: tOr(cs...)})
	})
	reg(vp+"EventCount", func(e *Exec, s *State, f *Frame, x *ssa.Call, a []Val) ([]*State, bool) {
		t := "0"
		for _, ev := range s.env().Events {
			t = tAdd(t, tIte(guardOf(ev), "1", "0"))
		}
		return ret(f, x, Sym{S: t})
	})
	// OnlyWritten(store, prefix, keys...): every store write since Mark under the prefix went to one of the given keys
	reg(vp+"OnlyWritten", func(e *Exec, s *State, f *Frame, x *ssa.Call, a []Val) ([]*State, bool) {
		name := a[0].(StrV).S
		e.checkStoreName(s, name)
		prefix := e.toBytesV(s, a[1])
		var keys []BytesV
		if sl, ok := a[2].(SliceV); ok && sl.ID != 0 {
			for _, el := range e.sliceElems(s, sl) {
				keys = append(keys, e.toBytesV(s, el))
			}
		}
		env := s.env()
		skip := 0
		if env.MarkStores != nil {
			skip = env.MarkStores[name]
		}
		var conj []string
		for _, en := range env.L[0].Stores[name] {
			if en.Pre {
				continue
			}
			if skip > 0 {
				skip--
				continue
			}
			pm := prefixMatch(prefix, en.Key)
			if pm == "false" {
				continue
			}
			var any []string
			for _, k := range keys {
				any = append(any, keyEq(k, en.Key))
			}
			conj = append(conj, tOr(tNot(pm), tOr(any...)))
		}
		return ret(f, x, Sym{Bool: true, S: tAnd(conj...)})
	})
	reg(vp+"BankWritesSinceMark", func(e *Exec, s *State, f *Frame, x *ssa.Call, a []Val) ([]*State, bool) {
		env := s.env()
		return ret(f, x, intc(int64(len(env.L[0].Bank)-env.Marked[0])))
	})
	reg(vp+"InjectFault", func(e *Exec, s *State, f *Frame, x *ssa.Call, a []Val) ([]*State, bool) {
		n := e.newInput("fault_at", "fault", false)
		e.sol.axiom("(>= " + n + " 0)")
		s.env().FaultAt = n
		s.env().Accesses = 0
		return ret(f, x, Sym{S: n})
	})
	reg(vp+"StopFaults", func(e *Exec, s *State, f *Frame, x *ssa.Call, a []Val) ([]*State, bool) {
		s.env().FaultAt = ""
		return ret(f, x, intc(int64(s.env().Accesses)))
	})
	reg(vp+"ReverseMapOrder", func(e *Exec, s *State, f *Frame, x *ssa.Call, a []Val) ([]*State, bool) {
		s.env().MapReverse = a[0].(Sym).S == "true"
		return nil, false
	})
}

func (e *Exec) noteAddr(id string) {
	k := "addr|" + id
	e.smu.Lock()
	first := !e.seen[k]
	e.seen[k] = true
	e.smu.Unlock()
	if first {
		// user addresses are non-negative, module addresses negative: disjoint ranges; addrof is injective via its inverse
		e.sol.axiom("(>= (addrof " + id + ") 0)")
		e.sol.axiom("(=> (bech32ok " + id + ") (= (bech32of (addrof " + id + ")) " + id + "))")
	}
}

// bytesID: an integer identifying abstract bytes (injective encoding of the segment list)
func (e *Exec) bytesID(s *State, b BytesV) string {
	t := "0"
	for _, g := range normSegs(b.Segs) {
		switch g.Kind {
		case "c":
			t = "(bcat " + t + " " + e.strID(StrV{"bytes:" + string(g.B)}) + ")"
		default:
			t = "(bcat " + t + " " + g.T + ")"
		}
	}
	return t
}

func (e *Exec) anyID(s *State, v Val) string {
	switch x := v.(type) {
	case IfaceV:
		if x.T == nil {
			return "0"
		}
		return e.anyID(s, x.V)
	case Sym:
		if x.Bool {
			return "(ite " + x.S + " 1 0)"
		}
		return x.S
	case BigV:
		return x.T
	case StrV, SymStr:
		return e.strID(v)
	case TimeV:
		return x.T
	case BytesV:
		return e.bytesID(s, x)
	}
	return e.sol.fresh("fmtarg", false)
}

// derAddr: derived module address; injective (inverse functions asserted per instance) and below every plain module address
func (e *Exec) derAddr(mod, key string) string {
	t := "(deraddr " + mod + " " + key + ")"
	e.smu.Lock()
	first := !e.seen[t]
	e.seen[t] = true
	e.smu.Unlock()
	if first {
		e.sol.axiom("(< " + t + " (- 1000000000000))")
		e.sol.axiom("(= (deraddr_m " + t + ") " + mod + ")")
		e.sol.axiom("(= (deraddr_k " + t + ") " + key + ")")
	}
	return t
}

// checkStoreName: stores are named after their module directory (x/<name>); a misspelt name would make a specification vacuous
func (e *Exec) checkStoreName(s *State, name string) {
	for k := range s.env().Keepers {
		if moduleOf(strings.TrimSuffix(strings.TrimPrefix(k, comdexPath+"/"), ".Keeper")) == name || strings.Contains(k, "/x/"+name+"/") {
			return
		}
	}
	panic("unknown store name " + name + " (stores are named after the module directory x/<name>)")
}

func (e *Exec) tryUnmarshalGet(s *State, g GetResult, want types.Type) (v Val, ok bool) {
	defer func() {
		if r := recover(); r != nil {
			msg := fmt.Sprint(r)
			if _, isMF := r.(mergeFail); isMF || strings.Contains(msg, "iteVal") {
				v, ok = nil, false
				return
			}
			panic(r)
		}
	}()
	return e.unmarshalGet(s, g, want), true
}
