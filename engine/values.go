// Value representation of the symbolic executor.
package main

import (
	"fmt"
	"go/types"
	"math/big"
	"strings"

	"golang.org/x/tools/go/ssa"
)

type Val interface{}

// Sym: a Go bool or integer as an SMT term (Bool or Int sort; integers are kept normalised to their Go kind's range).
type Sym struct {
	Bool bool
	S    string
}

// BigV: cosmossdk.io/math.Int (value) or LegacyDec (mantissa at scale 10^18).
type BigV struct {
	Nil   bool
	T     string
	NilIf string // non-empty (only after a state merge): the value is the nil Int/Dec iff this term holds
}
type Tuple []Val
type StructV struct{ F []Val }
type Ptr struct {
	ID   int // heap object, 0 = nil; >= 1<<30: shared pre-state heap (copy on write)
	Path []int
	Glob *ssa.Global
}
type IfaceV struct {
	T     types.Type // nil => nil interface
	V     Val
	NilIf string // non-empty (only after a state merge): the interface is nil iff this term holds, else it is (T, V)
}
type Closure struct {
	Fn    *ssa.Function
	Binds []Val
}
type StrV struct{ S string } // concrete string
type SliceV struct {
	ID       int
	Off, Len int
	Cap      int    // 0 = same as Len (no spare capacity known)
	SymLen   string // non-empty: havocked slice whose length is this term (0..Len); concretised on first use
}
type ArrV struct{ E []Val }
type MapV struct{ K, V []Val }
type RangeV struct {
	K, V []Val
	Pos  int
}
type SwapV struct{ S SliceV }
type FloatV struct{ T string } // real-valued term (contract model of float64, see DESIGN 4.7)

type Deferred struct {
	Fn   Val
	Args []Val
}
type Frame struct {
	Fn        *ssa.Function
	Blk, Prev *ssa.BasicBlock
	Idx       int
	Regs      map[ssa.Value]Val
	Defers    []Deferred
	Panicking bool
	IsDefer   bool
	RetTo     ssa.Value
	Visits    map[int]int // block index -> number of entries (unwinding bound)
}
type State struct {
	Frames  []*Frame
	Heap    map[int]Val
	NextObj int
	PC      []string
	Panic   *IfaceV
	Reached map[string]bool
	E       *Env
	Steps   int
	ID      int
	Marks   map[string]Val  // harness-visible ghost values
	Choices []int           // zzvp.Choose decisions taken on this path
	InSeq   []string        // "kind:name" of every zzvp.Any*() input created on this path, in call order (native replay feeds them back in this order)
	Asserts []pendingAssert // assertions awaiting discharge at the end of the path (one batched query)
	Spy     []spyRec        // calls of harness-declared contract stubs on this path (arguments and results)
	Dead    bool            // already reported as finished (dropped) from inside a region
}

type spyRec struct {
	Name string
	Args []Val
	Res  Tuple
}

type pendingAssert struct{ Label, Cond string }

func (s *State) clone() *State {
	n := &State{Heap: make(map[int]Val, len(s.Heap)), NextObj: s.NextObj, PC: append([]string{}, s.PC...), Reached: map[string]bool{}, Steps: s.Steps, ID: s.ID, Choices: append([]int{}, s.Choices...), InSeq: append([]string{}, s.InSeq...), Asserts: append([]pendingAssert{}, s.Asserts...), Spy: append([]spyRec{}, s.Spy...)}
	for k, v := range s.Reached {
		n.Reached[k] = v
	}
	if s.Marks != nil {
		n.Marks = map[string]Val{}
		for k, v := range s.Marks {
			n.Marks[k] = v
		}
	}
	n.E = cloneEnv(s.E)
	for k, v := range s.Heap {
		n.Heap[k] = v // heap values are immutable trees: store() rebuilds the spine (setPath), so sharing is safe
	}
	if s.Panic != nil {
		p := *s.Panic
		n.Panic = &p
	}
	for _, f := range s.Frames {
		nf := *f
		nf.Regs = make(map[ssa.Value]Val, len(f.Regs))
		for k, v := range f.Regs {
			nf.Regs[k] = v
		}
		nf.Defers = append([]Deferred{}, f.Defers...)
		if f.Visits != nil {
			nf.Visits = make(map[int]int, len(f.Visits))
			for k, v := range f.Visits {
				nf.Visits[k] = v
			}
		}
		n.Frames = append(n.Frames, &nf)
	}
	return n
}

func cloneVal(v Val) Val {
	switch x := v.(type) {
	case StructV:
		f := make([]Val, len(x.F))
		for i := range f {
			f[i] = cloneVal(x.F[i])
		}
		return StructV{f}
	case ArrV:
		f := make([]Val, len(x.E))
		for i := range f {
			f[i] = cloneVal(x.E[i])
		}
		return ArrV{f}
	case Tuple:
		f := make(Tuple, len(x))
		for i := range f {
			f[i] = cloneVal(x[i])
		}
		return f
	}
	return v
}

var pow2_64 = new(big.Int).Lsh(big.NewInt(1), 64)

func intc(i int64) Sym { return Sym{S: smtInt(big.NewInt(i))} }
func smtInt(b *big.Int) string {
	if b.Sign() < 0 {
		return "(- " + new(big.Int).Neg(b).String() + ")"
	}
	return b.String()
}
func boolc(b bool) Sym {
	if b {
		return Sym{Bool: true, S: "true"}
	}
	return Sym{Bool: true, S: "false"}
}

func asConst(t string) (*big.Int, bool) {
	if len(t) == 0 {
		return nil, false
	}
	if strings.HasPrefix(t, "(- ") && strings.HasSuffix(t, ")") && !strings.Contains(t[3:], " ") {
		n, ok := new(big.Int).SetString(t[3:len(t)-1], 10)
		if ok {
			return n.Neg(n), true
		}
		return nil, false
	}
	c := t[0]
	if c < '0' || c > '9' {
		return nil, false
	}
	return new(big.Int).SetString(t, 10)
}

// ---- small term constructors with folding ----
func tNot(a string) string {
	switch a {
	case "true":
		return "false"
	case "false":
		return "true"
	}
	if strings.HasPrefix(a, "(not ") && strings.HasSuffix(a, ")") {
		inner := a[5 : len(a)-1]
		if balanced(inner) {
			return inner
		}
	}
	return "(not " + a + ")"
}
func balanced(s string) bool {
	d := 0
	for i := 0; i < len(s); i++ {
		if s[i] == '(' {
			d++
		} else if s[i] == ')' {
			d--
			if d < 0 {
				return false
			}
			if d == 0 && i != len(s)-1 {
				return false
			}
		} else if d == 0 && s[i] == ' ' {
			return false
		}
	}
	return d == 0
}
func tAnd(xs ...string) string {
	var out []string
	for _, x := range xs {
		if x == "true" {
			continue
		}
		if x == "false" {
			return "false"
		}
		out = append(out, x)
	}
	switch len(out) {
	case 0:
		return "true"
	case 1:
		return out[0]
	}
	return "(and " + strings.Join(out, " ") + ")"
}
func tOr(xs ...string) string {
	var out []string
	for _, x := range xs {
		if x == "false" {
			continue
		}
		if x == "true" {
			return "true"
		}
		out = append(out, x)
	}
	switch len(out) {
	case 0:
		return "false"
	case 1:
		return out[0]
	}
	return "(or " + strings.Join(out, " ") + ")"
}
func tIte(c, a, b string) string {
	if c == "true" {
		return a
	}
	if c == "false" {
		return b
	}
	if a == b {
		return a
	}
	return "(ite " + c + " " + a + " " + b + ")"
}
func tEq(a, b string) string {
	if a == b {
		return "true"
	}
	ca, ok1 := asConst(a)
	cb, ok2 := asConst(b)
	if ok1 && ok2 {
		if ca.Cmp(cb) == 0 {
			return "true"
		}
		return "false"
	}
	return "(= " + a + " " + b + ")"
}
func tCmp(op, a, b string) string {
	ca, ok1 := asConst(a)
	cb, ok2 := asConst(b)
	if ok1 && ok2 {
		c := ca.Cmp(cb)
		var r bool
		switch op {
		case "<":
			r = c < 0
		case "<=":
			r = c <= 0
		case ">":
			r = c > 0
		case ">=":
			r = c >= 0
		}
		if r {
			return "true"
		}
		return "false"
	}
	return "(" + op + " " + a + " " + b + ")"
}
func tAdd(a, b string) string {
	ca, ok1 := asConst(a)
	cb, ok2 := asConst(b)
	if ok1 && ok2 {
		return smtInt(new(big.Int).Add(ca, cb))
	}
	if ok1 && ca.Sign() == 0 {
		return b
	}
	if ok2 && cb.Sign() == 0 {
		return a
	}
	return "(+ " + a + " " + b + ")"
}
func tSub(a, b string) string {
	ca, ok1 := asConst(a)
	cb, ok2 := asConst(b)
	if ok1 && ok2 {
		return smtInt(new(big.Int).Sub(ca, cb))
	}
	if ok2 && cb.Sign() == 0 {
		return a
	}
	if a == b {
		return "0"
	}
	return "(- " + a + " " + b + ")"
}
func tMul(a, b string) string {
	ca, ok1 := asConst(a)
	cb, ok2 := asConst(b)
	if ok1 && ok2 {
		return smtInt(new(big.Int).Mul(ca, cb))
	}
	if ok1 {
		if ca.Sign() == 0 {
			return "0"
		}
		if ca.Cmp(big.NewInt(1)) == 0 {
			return b
		}
	}
	if ok2 {
		if cb.Sign() == 0 {
			return "0"
		}
		if cb.Cmp(big.NewInt(1)) == 0 {
			return a
		}
	}
	return "(* " + a + " " + b + ")"
}
func tNeg(a string) string {
	if c, ok := asConst(a); ok {
		return smtInt(new(big.Int).Neg(c))
	}
	return "(- " + a + ")"
}

// isNonlinear: does the term contain a product of two non-constant factors (or a div/mod by a non-constant)?
func isNonlinear(t string) bool {
	for i := 0; i+3 <= len(t); i++ {
		if t[i] == '(' && (strings.HasPrefix(t[i:], "(* ") || strings.HasPrefix(t[i:], "(div ") || strings.HasPrefix(t[i:], "(mod ")) {
			args := splitArgs(t[i:])
			isMul := strings.HasPrefix(t[i:], "(* ")
			nonconst := 0
			for k, a := range args {
				if _, ok := asConst(a); !ok {
					if isMul || k == 1 {
						nonconst++
					}
				}
			}
			if isMul && nonconst >= 2 {
				return true
			}
			if !isMul && nonconst >= 1 {
				return true
			}
		}
	}
	return false
}

// splitArgs: for "(op a b c ...)..." returns the top-level arguments of the first s-expression.
func splitArgs(t string) []string {
	var elems []string
	d := 0
	start := -1
loop:
	for i := 0; i < len(t); i++ {
		switch c := t[i]; c {
		case '(':
			if d == 1 && start < 0 {
				start = i
			}
			d++
		case ')':
			d--
			if d == 1 && start >= 0 && t[start] == '(' {
				elems = append(elems, t[start:i+1])
				start = -1
			} else if d == 0 {
				if start >= 0 {
					elems = append(elems, t[start:i])
				}
				break loop
			}
		case ' ':
			if d == 1 && start >= 0 && t[start] != '(' {
				elems = append(elems, t[start:i])
				start = -1
			}
		default:
			if d == 1 && start < 0 {
				start = i
			}
		}
	}
	if len(elems) == 0 {
		return nil
	}
	return elems[1:]
}

func isBig(t types.Type) bool {
	s := types.Unalias(t).String()
	return s == "cosmossdk.io/math.Int" || s == "cosmossdk.io/math.LegacyDec" || s == comdexPath+"/zzvp.Z"
}
func isDec(t types.Type) bool { return types.Unalias(t).String() == "cosmossdk.io/math.LegacyDec" }

func describeVal(v Val) string { return fmt.Sprintf("%T", v) }
