// gosym driver: loads /repo with the harness overlay, runs every VP_<prop>_* harness, writes evidence, sets the exit code.
package main

import (
	"sync/atomic"
	"os/exec"
	"crypto/sha256"
	"encoding/json"
	"flag"
	"fmt"
	"os"
	"os/signal"
	"path/filepath"
	"regexp"
	"runtime"
	"sort"
	"strings"
	"sync"
	"syscall"
	"time"

	"golang.org/x/tools/go/packages"
	"golang.org/x/tools/go/ssa"
	"golang.org/x/tools/go/ssa/ssautil"
)

type HarnessResult struct {
	Name         string
	Paths        map[string]int
	Dropped      map[string]int
	Asserts      map[string]*AssertStat
	Reach        map[string]string // label -> sat | unsat | unknown | never-reached
	ReachSample  map[string]map[string]string
	Funcs        map[string]string // function -> ssa hash
	Queries      int
	FinalQ       int
	SolverS      float64
	WallS        float64
	Stats        map[string]int
	Bounds       map[string]int
	Options      []string
	Notes        []string
	Overflow     map[string]int
	Inputs       int
	Err          string
	Merges       int
	MergeFalls   int
	Unknowns     []*FinalQuery
	Sats         []*FinalQuery
	CrossChecked int
	Batches      int
}

type Config struct {
	repo, verif, prop string
	tier              int
	seed              int64
	only              string
	jobs              int
	trace             bool
	keep              bool
	capS              int
	feasMs            int
	cross             bool
	workers           int
	maxPaths          int
}

var harnessFileRe = regexp.MustCompile(`^//vp:target\s+(\S+)`)
var harnessPropsRe = regexp.MustCompile(`(?m)^//vp:props\s+(.+)$`)

func containsWord(s, w string) bool {
	for _, f := range strings.Fields(s) {
		if f == w {
			return true
		}
	}
	return false
}

var harnessNeedsRe = regexp.MustCompile(`(?m)^//vp:load\s+(.+)$`)

func main() {
	var cfg Config
	var tier string
	flag.StringVar(&cfg.repo, "repo", "/repo", "repository root")
	flag.StringVar(&cfg.verif, "verif", "/verif", "verification root")
	flag.StringVar(&cfg.prop, "prop", "", "property id (C01..)")
	flag.StringVar(&tier, "tier", "quick", "quick|thorough")
	flag.Int64Var(&cfg.seed, "seed", 0, "seed")
	flag.StringVar(&cfg.only, "only", "", "run only harnesses whose name contains this")
	flag.IntVar(&cfg.jobs, "j", 0, "harnesses explored concurrently (0 = auto)")
	flag.IntVar(&cfg.workers, "w", 0, "exploration workers per harness (0 = auto)")
	flag.BoolVar(&cfg.trace, "trace", false, "print stacks of dropped paths")
	flag.IntVar(&cfg.maxPaths, "maxpaths", 200000, "path budget per harness")
	flag.BoolVar(&cfg.keep, "keep", false, "keep all query files")
	flag.IntVar(&cfg.capS, "cap", 0, "final query cap in seconds (default 60 quick / 300 thorough)")
	flag.IntVar(&cfg.feasMs, "feas", 0, "feasibility cap in ms (default 300 quick / 2000 thorough)")
	flag.Parse()
	if tier == "thorough" {
		cfg.tier = 1
	}
	if cfg.capS == 0 {
		cfg.capS = 60
		if cfg.tier == 1 {
			cfg.capS = 300
		}
	}
	if cfg.feasMs == 0 {
		cfg.feasMs = 300
		if cfg.tier == 1 {
			cfg.feasMs = 1500
		}
	}
	cfg.cross = true
	if os.Getenv("VP_NO_CROSS") != "" {
		cfg.cross = false
	}
	if v := os.Getenv("VERIF_SEED"); v != "" && cfg.seed == 0 {
		fmt.Sscan(v, &cfg.seed)
	}
	if cfg.prop == "" {
		fmt.Fprintln(os.Stderr, "usage: gosym -prop C06 [-tier quick|thorough]")
		os.Exit(3)
	}
	os.Exit(runProperty(&cfg))
}

func readHarnessFiles(cfg *Config) (overlay map[string][]byte, pats []string, files []string, err error) {
	overlay = map[string][]byte{}
	patSet := map[string]bool{}
	dir := filepath.Join(cfg.verif, "harness")
	ents, err := os.ReadDir(dir)
	if err != nil {
		return nil, nil, nil, err
	}
	pl := strings.ToLower(cfg.prop)
	for _, en := range ents {
		n := en.Name()
		if !strings.HasSuffix(n, ".go") {
			continue
		}
		b, err := os.ReadFile(filepath.Join(dir, n))
		if err != nil {
			return nil, nil, nil, err
		}
		if !strings.HasPrefix(n, pl+"_") {
			// shared helper files list the properties they serve: //vp:props C01 C02 ...
			m := harnessPropsRe.FindSubmatch(b)
			if m == nil || !containsWord(string(m[1]), cfg.prop) {
				continue
			}
		}
		m := harnessFileRe.FindSubmatch(b)
		if m == nil {
			return nil, nil, nil, fmt.Errorf("%s: missing //vp:target directive", n)
		}
		target := string(m[1])
		overlay[filepath.Join(cfg.repo, target)] = b
		patSet["./"+filepath.Dir(target)] = true
		for _, mm := range harnessNeedsRe.FindAllSubmatch(b, -1) {
			for _, p := range strings.Fields(string(mm[1])) {
				patSet[p] = true
			}
		}
		files = append(files, n)
	}
	zz, err := os.ReadFile(filepath.Join(cfg.verif, "zzvp", "vp.go"))
	if err != nil {
		return nil, nil, nil, err
	}
	overlay[filepath.Join(cfg.repo, "zzvp", "vp.go")] = zz
	for p := range patSet {
		pats = append(pats, p)
	}
	sort.Strings(pats)
	return
}

func runProperty(cfg *Config) int {
	t0 := time.Now()
	overlay, pats, files, err := readHarnessFiles(cfg)
	if err != nil {
		fmt.Println("INCONCLUSIVE property=" + cfg.prop + " harness files: " + err.Error())
		return 2
	}
	if len(files) == 0 {
		fmt.Println("INCONCLUSIVE property=" + cfg.prop + " no harness files")
		return 2
	}
	pcfg := &packages.Config{Mode: packages.LoadAllSyntax, Dir: cfg.repo, BuildFlags: []string{"-tags=verif", "-mod=mod"}, Overlay: overlay,
		Env: append(os.Environ(), "GOFLAGS=-mod=mod", "GOPROXY=off", "GOSUMDB=off", "GOTOOLCHAIN=local")}
	pkgs, err := packages.Load(pcfg, pats...)
	if err != nil {
		fmt.Println("INCONCLUSIVE property=" + cfg.prop + " load: " + err.Error())
		return 2
	}
	nerr := 0
	packages.Visit(pkgs, nil, func(p *packages.Package) {
		for _, e := range p.Errors {
			if nerr < 20 {
				fmt.Fprintln(os.Stderr, "load error:", e)
			}
			nerr++
		}
	})
	if nerr > 0 {
		fmt.Printf("INCONCLUSIVE property=%s the tree (with harness overlay) does not compile: %d errors\n", cfg.prop, nerr)
		return 2
	}
	prog, spkgs := ssautil.AllPackages(pkgs, ssa.InstantiateGenerics)
	prog.Build()
	loadS := time.Since(t0).Seconds()
	fmt.Fprintf(os.Stderr, "[gosym] loaded %v and built SSA in %.1fs\n", pats, loadS)

	var vpModel *ssa.Function
	for _, p := range prog.AllPackages() {
		if p.Pkg.Path() == comdexPath+"/zzvp" {
			vpModel = p.Func("VPInsertionSort")
		}
	}
	type job struct {
		pkg *ssa.Package
		fn  string
	}
	var jobs []job
	prefix := "VP_" + cfg.prop + "_"
	for _, sp := range spkgs {
		if sp == nil {
			continue
		}
		var names []string
		for n := range sp.Members {
			if strings.HasPrefix(n, prefix) {
				if cfg.only != "" && !strings.Contains(n, cfg.only) {
					continue
				}
				if _, isFn := sp.Members[n].(*ssa.Function); isFn {
					names = append(names, n)
				}
			}
		}
		sort.Strings(names)
		for _, n := range names {
			jobs = append(jobs, job{sp, n})
		}
	}
	if len(jobs) == 0 {
		fmt.Println("INCONCLUSIVE property=" + cfg.prop + " no harness functions found")
		return 2
	}
	workRoot := filepath.Join(cfg.verif, ".work", fmt.Sprintf("%s-%d", cfg.prop, os.Getpid()))
	// scratch of earlier runs that were killed: remove when the owning process is gone
	if ents, err := os.ReadDir(filepath.Join(cfg.verif, ".work")); err == nil {
		for _, en := range ents {
			if i := strings.LastIndex(en.Name(), "-"); i > 0 {
				if _, err := os.Stat("/proc/" + en.Name()[i+1:]); err != nil {
					os.RemoveAll(filepath.Join(cfg.verif, ".work", en.Name()))
				}
			}
		}
	}
	os.MkdirAll(workRoot, 0o755)
	sigc := make(chan os.Signal, 1)
	signal.Notify(sigc, syscall.SIGINT, syscall.SIGTERM)
	go func() {
		<-sigc
		os.RemoveAll(workRoot)
		os.Exit(3)
	}()
	results := make([]*HarnessResult, len(jobs))
	ncpu := runtime.NumCPU()
	if cfg.jobs == 0 {
		cfg.jobs = len(jobs)
		if cfg.jobs > 4 {
			cfg.jobs = 4
		}
	}
	if cfg.workers == 0 {
		cfg.workers = ncpu / cfg.jobs
		if cfg.workers < 1 {
			cfg.workers = 1
		}
	}
	sem := make(chan struct{}, cfg.jobs)
	var wg sync.WaitGroup
	for i, j := range jobs {
		wg.Add(1)
		go func(i int, j job) {
			defer wg.Done()
			sem <- struct{}{}
			defer func() { <-sem }()
			results[i] = runHarness(cfg, prog, j.pkg, j.fn, vpModel, workRoot)
			r := results[i]
			fmt.Fprintf(os.Stderr, "[gosym] %-44s paths=%v queries=%d final=%d solver=%.1fs wall=%.1fs %s\n", r.Name, r.Paths, r.Queries, r.FinalQ, r.SolverS, r.WallS, r.Err)
			for why, n := range r.Dropped {
				fmt.Fprintf(os.Stderr, "[gosym]    dropped %d: %s\n", n, why)
			}
		}(i, j)
	}
	wg.Wait()
	code := report(cfg, results, files, pats, loadS, time.Since(t0).Seconds(), workRoot)
	if !cfg.keep {
		// keep only what a reported counterexample points to
		cleanWork(workRoot)
	}
	return code
}

func cleanWork(dir string) {
	os.RemoveAll(dir) // counterexample queries were copied to /verif/cex by saveCex
	os.Remove(filepath.Dir(dir))
}

func ssaHash(fn *ssa.Function) string {
	h := sha256.New()
	fn.WriteTo(h)
	return fmt.Sprintf("%x", h.Sum(nil))[:12]
}

func runHarness(cfg *Config, prog *ssa.Program, pkg *ssa.Package, name string, vpModel *ssa.Function, workRoot string) (res *HarnessResult) {
	t0 := time.Now()
	res = &HarnessResult{Name: name, Paths: map[string]int{}, Dropped: map[string]int{}, Asserts: map[string]*AssertStat{}, Reach: map[string]string{},
		ReachSample: map[string]map[string]string{}, Funcs: map[string]string{}, Stats: map[string]int{}, Overflow: map[string]int{}}
	dir := filepath.Join(workRoot, name)
	os.MkdirAll(dir, 0o755)
	pool := &FinalPool{capS: cfg.capS, cross: cfg.cross, dir: dir, keepAll: cfg.keep}
	if cfg.tier == 0 {
		pool.crossMax = 3 // quick tier: the second solver re-decides a sample per assertion label (every sat answer is always re-decided)
	}
	sh := &Shared{prog: prog, pool: pool, harness: name, tier: cfg.tier, seed: cfg.seed, trace: cfg.trace, vpModel: vpModel,
		globals: map[*ssa.Global]Val{}, lazyMemo: map[string]StoreEntry{}, globalHeap: map[int]Val{}, strIntern: map[string]int{}, seen: map[string]bool{},
		unwind: 24, sliceL: 2, maxSteps: 20000000, maxPaths: cfg.maxPaths, reachWanted: map[string]int{}, reachSat: map[string]bool{}, reachLater: map[string][]*State{}, divMemo: map[string][2]string{}, stubPanic: map[string]bool{},
		boundsUsed: map[string]int{}, optionsUsed: map[string]bool{}, notes: map[string]bool{}, stubs: map[string]bool{}, stubMono: map[string][2]int{}}
	sh.decls = append(sh.decls, prelude...)
	sh.noRegion = os.Getenv("VP_NO_REGION") != ""
	pool.onDone = func(q *FinalQuery) {
		if q.Kind == "reach" {
			sh.mu.Lock()
			if q.Result == "sat" {
				sh.reachSat[q.Label] = true
			} else if sh.reachWanted[q.Label] > 0 {
				// a witness attempt that came back unsat/unknown frees its slot: later paths keep trying until one is sat
				// (paths kept by the def-free feasibility check are often infeasible once the definitions are added)
				sh.reachWanted[q.Label]--
			}
			sh.mu.Unlock()
		}
	}
	nw := cfg.workers
	if nw < 1 {
		nw = 1
	}
	var workers []*Exec
	for i := 0; i < nw; i++ {
		w := &Exec{Shared: sh, sol: newSolver(sh, dir, cfg.feasMs), stats: map[string]int{}, funcs: map[*ssa.Function]bool{}, dropped: map[string]int{}}
		workers = append(workers, w)
	}
	defer func() {
		for _, w := range workers {
			w.sol.close()
		}
	}()
	e := workers[0]
	defer func() {
		if r := recover(); r != nil {
			res.Err = fmt.Sprint("engine failure: ", r)
		}
		res.WallS = time.Since(t0).Seconds()
	}()
	// package init (concrete, lenient) to populate globals
	e.initMode = true
	var base *State
	e.run(pkg.Func("init"), nil, nil, func(o outcome) {
		if o.kind == "ok" {
			base = o.st
		} else {
			res.Stats["init-"+o.kind]++
			if cfg.trace {
				fmt.Fprintln(os.Stderr, "init outcome:", o.kind, o.why)
			}
		}
	})
	e.initMode = false
	sh.pathSeq = 0
	e.dropped = map[string]int{}
	e.funcs = map[*ssa.Function]bool{}
	if base == nil {
		res.Err = "package init did not complete"
		return
	}
	fn := pkg.Func(name)
	// reach labels declared in the harness source (so that a label never reached is noticed)
	declared := map[string]bool{}
	collectReachLabels(fn, declared, map[*ssa.Function]bool{})
	counts := e.run(fn, base, workers, nil)
	done := pool.wait()
	// vacuity witnesses: labels whose first attempts were all unsat get the remaining reaching paths tried, 16 at a time
	for {
		more := false
		sh.mu.Lock()
		for l, later := range sh.reachLater {
			if sh.reachSat[l] || len(later) == 0 {
				continue
			}
			n := 16
			if n > len(later) {
				n = len(later)
			}
			batch := later[:n]
			sh.reachLater[l] = later[n:]
			sh.mu.Unlock()
			for _, st := range batch {
				e.submitFinal(st, "reach", l, st.PC, nil)
			}
			sh.mu.Lock()
			more = true
		}
		sh.mu.Unlock()
		if !more {
			break
		}
		done = pool.wait()
	}
	res.Paths = counts
	res.FinalQ = len(done)
	res.SolverS = float64(pool.solverT) / 1e9
	if pool.fallbacks > 0 {
		res.Stats["queries-decided-by-a-second-attempt(other-z3-build-or-seed)"] = int(pool.fallbacks)
	}
	if n := atomic.SwapInt64(&keyShapeMismatch, 0); n > 0 {
		res.Stats["keys-with-constant-vs-symbolic-string-decided-different"] = int(n)
	}
	allStats := map[string]int{}
	for _, w := range workers {
		for k, v := range w.dropped {
			res.Dropped[k] += v
		}
		res.Queries += w.sol.queries
		res.SolverS += w.sol.dur.Seconds()
		for k, v := range w.stats {
			allStats[k] += v
		}
		for f := range w.funcs {
			e.funcs[f] = true
		}
		if w != e {
			e.merges += w.merges
			e.mergeFallback += w.mergeFallback
		}
	}
	e.stats = allStats
	for k, v := range allStats {
		res.Stats[k] = v
	}
	res.Bounds = e.boundsUsed
	res.Bounds["unwind"] = e.unwind
	res.Bounds["slice-len"] = e.sliceL
	for o := range e.optionsUsed {
		res.Options = append(res.Options, o)
	}
	for n := range e.notes {
		res.Notes = append(res.Notes, n)
	}
	for n := range e.stubs {
		res.Notes = append(res.Notes, "contract stub (any result of its type): "+n)
	}
	sort.Strings(res.Options)
	sort.Strings(res.Notes)
	res.Inputs = len(e.inputs)
	res.Merges, res.MergeFalls = e.merges, e.mergeFallback
	for f := range e.funcs {
		res.Funcs[f.String()] = ssaHash(f)
	}
	for l := range declared {
		res.Reach[l] = "never-reached"
	}
	for _, q := range done {
		if q.Cross != "" {
			res.CrossChecked++
		}
		switch q.Kind {
		case "batch":
			res.Batches++
			if q.Result == "unsat" {
				for _, a := range q.Batch {
					st := res.Asserts[a.Label]
					if st == nil {
						st = &AssertStat{Label: a.Label}
						res.Asserts[a.Label] = st
					}
					st.Unsat++
					if q.Dur.Seconds() > st.MaxDur {
						st.MaxDur = q.Dur.Seconds()
					}
				}
			}
		case "assert":
			st := res.Asserts[q.Label]
			if st == nil {
				st = &AssertStat{Label: q.Label}
				res.Asserts[q.Label] = st
			}
			if q.Dur.Seconds() > st.MaxDur {
				st.MaxDur = q.Dur.Seconds()
			}
			switch q.Result {
			case "unsat":
				st.Unsat++
			case "sat":
				st.Sat++
				if st.FirstSat == nil {
					st.FirstSat = q
				}
				res.Sats = append(res.Sats, q)
			default:
				st.Unknown++
				if st.FirstUnknown == nil {
					st.FirstUnknown = q
				}
				res.Unknowns = append(res.Unknowns, q)
			}
		case "reach":
			cur := res.Reach[q.Label]
			if q.Result == "sat" {
				res.Reach[q.Label] = "sat"
				if res.ReachSample[q.Label] == nil {
					res.ReachSample[q.Label] = namedInputs(e, q.Values)
				}
			} else if cur != "sat" {
				if q.Result == "unsat" && cur != "unknown" {
					res.Reach[q.Label] = "unsat"
				} else {
					res.Reach[q.Label] = "unknown"
				}
			}
		case "overflow":
			res.Overflow[q.Result]++
		}
	}
	for k, v := range e.stats {
		if strings.HasPrefix(k, "assert-trivial:") {
			l := strings.TrimPrefix(k, "assert-trivial:")
			st := res.Asserts[l]
			if st == nil {
				st = &AssertStat{Label: l}
				res.Asserts[l] = st
			}
			st.Trivial += v
		}
	}
	for _, q := range res.Sats {
		q.Model = q.Values
		q.Values = namedInputs(e, q.Values)
	}
	return
}

func namedInputs(e *Exec, vals map[string]string) map[string]string {
	out := map[string]string{}
	for i, n := range e.inputs {
		if v, ok := vals[n]; ok {
			out[fmt.Sprintf("%03d:%s:%s", i, e.inputTag[i], n)] = v
		}
	}
	return out
}

func collectReachLabels(fn *ssa.Function, out map[string]bool, seen map[*ssa.Function]bool) {
	if fn == nil || seen[fn] || fn.Blocks == nil {
		return
	}
	seen[fn] = true
	for _, b := range fn.Blocks {
		for _, in := range b.Instrs {
			c, ok := in.(*ssa.Call)
			if !ok {
				if mc, ok := in.(*ssa.MakeClosure); ok {
					collectReachLabels(mc.Fn.(*ssa.Function), out, seen)
				}
				continue
			}
			if callee := c.Call.StaticCallee(); callee != nil {
				if callee.String() == comdexPath+"/zzvp.Reach" {
					if k, ok := c.Call.Args[0].(*ssa.Const); ok {
						out[strings.Trim(k.Value.ExactString(), `"`)] = true
					}
				} else if strings.HasPrefix(callee.Name(), "vp") && callee.Pkg == fn.Pkg {
					collectReachLabels(callee, out, seen) // harness helper functions (vpXxx) of the same package
				}
			}
		}
	}
}

// ---- reporting ----

type KnownFinding struct {
	Property string `json:"property"`
	Harness  string `json:"harness"`
	Label    string `json:"label"`
	What     string `json:"what"`
	Status   string `json:"status"` // "known" | "fixed"
	Commit   string `json:"commit,omitempty"`
}

func loadKnown(cfg *Config) []KnownFinding {
	var k struct {
		Findings []KnownFinding `json:"findings"`
	}
	b, err := os.ReadFile(filepath.Join(cfg.verif, "known_findings.json"))
	if err != nil {
		return nil
	}
	json.Unmarshal(b, &k)
	return k.Findings
}

func report(cfg *Config, results []*HarnessResult, files, pats []string, loadS, wallS float64, workRoot string) int {
	known := loadKnown(cfg)
	isKnown := func(h, l string) *KnownFinding {
		for i := range known {
			k := &known[i]
			if k.Status == "known" && k.Property == cfg.prop && k.Harness == h && k.Label == l {
				return k
			}
		}
		return nil
	}
	tier := "quick"
	if cfg.tier == 1 {
		tier = "thorough"
	}
	violations := 0
	inconclusive := []string{}
	var samples []interface{}
	obligations, discharged := 0, 0
	qUnsat, qSat, qUnknown := 0, 0, 0
	funcs := map[string]string{}
	totalPaths, droppedPaths := 0, 0
	solverS := 0.0
	distinct := 0
	evals := 0
	cross := 0
	dropReasons := map[string]int{}
	bounds := map[string]interface{}{}
	var assumptions []string
	var lines []string
	knownPrinted := map[string]bool{}
	cexDir := filepath.Join(cfg.verif, "cex", cfg.prop)
	os.RemoveAll(cexDir)
	for _, r := range results {
		if r == nil {
			continue
		}
		solverS += r.SolverS
		evals += r.Queries + r.FinalQ
		cross += r.CrossChecked
		for f, h := range r.Funcs {
			funcs[f] = h
		}
		for k, v := range r.Paths {
			totalPaths += v
			if k == "dropped" {
				droppedPaths += v
			}
		}
		for k, v := range r.Dropped {
			dropReasons[k] += v
			// a path the executor could not follow to its end is a hole in the exploration, not a pass
			inconclusive = append(inconclusive, fmt.Sprintf("%s: %d path(s) not explored to the end (%s)", r.Name, v, k))
		}
		hb := map[string]interface{}{}
		for k, v := range r.Bounds {
			hb[k] = v
		}
		if len(r.Options) > 0 {
			hb["options"] = r.Options
		}
		bounds[r.Name] = hb
		for _, n := range r.Notes {
			assumptions = append(assumptions, r.Name+": "+n)
		}
		if r.Err != "" {
			inconclusive = append(inconclusive, r.Name+": "+r.Err)
		}
		hs := map[string]interface{}{"harness": r.Name, "paths": r.Paths, "feasibility_queries": r.Queries, "final_queries": r.FinalQ}
		as := map[string]interface{}{}
		var labels []string
		for l := range r.Asserts {
			labels = append(labels, l)
		}
		sort.Strings(labels)
		for _, l := range labels {
			st := r.Asserts[l]
			obligations++
			inst := st.Unsat + st.Sat + st.Unknown
			distinct += inst
			qUnsat += st.Unsat
			qSat += st.Sat
			qUnknown += st.Unknown
			as[l] = map[string]interface{}{"instances": inst, "unsat": st.Unsat, "sat": st.Sat, "unknown": st.Unknown, "trivially_true": st.Trivial, "max_query_s": round2(st.MaxDur)}
			switch {
			case st.Sat > 0:
				if k := isKnown(r.Name, l); k != nil {
					if !knownPrinted[r.Name+"|"+l] {
						knownPrinted[r.Name+"|"+l] = true
						kp := saveCex(cfg, cexDir, r, st)
						lines = append(lines, fmt.Sprintf("KNOWN-FINDING: property=%s %s [%s/%s, %d path instance(s); counterexample %s]", cfg.prop, k.What, r.Name, l, st.Sat, kp))
					}
					discharged++ // accounted for
				} else {
					path := saveCex(cfg, cexDir, r, st)
					// replay the solver's assignment against the natively compiled real code before reporting
					verdict, note := nativeReplay(cfg, path)
					if verdict == "not-reproduced" {
						// the native run contradicts the solver: the encoding (or a stub) misrepresents the code here
						inconclusive = append(inconclusive, fmt.Sprintf("%s/%s: solver counterexample did NOT reproduce natively (%s); counterexample kept in %s", r.Name, l, note, path))
					} else {
						violations++
						lines = append(lines, fmt.Sprintf("VIOLATION property=%s replay=%s", cfg.prop, path))
						lines = append(lines, fmt.Sprintf("  harness=%s assertion=%q sat on %d of %d path instance(s); inputs=%v", r.Name, l, st.Sat, inst, st.FirstSat.Values))
						lines = append(lines, "  native replay: "+verdict+" - "+note)
					}
				}
			case st.Unknown > 0:
				inconclusive = append(inconclusive, fmt.Sprintf("%s/%s: %d of %d instance(s) undecided (%s; first on Choose path %v)", r.Name, l, st.Unknown, inst, st.FirstUnknown.Note, st.FirstUnknown.Choices))
			default:
				if inst > 0 || st.Trivial > 0 {
					discharged++
				}
			}
		}
		hs["assertions"] = as
		var rl []string
		for l := range r.Reach {
			rl = append(rl, l)
		}
		sort.Strings(rl)
		reach := map[string]interface{}{}
		skippedHere := false
		for _, o := range r.Options {
			if o == "thorough-only" && tier != "thorough" {
				skippedHere = true // the harness declared itself thorough-tier only and returned at once
			}
		}
		if skippedHere {
			hs["skipped"] = "thorough tier only"
		}
		for _, l := range rl {
			reach[l] = r.Reach[l]
			if skippedHere && r.Reach[l] == "never-reached" {
				reach[l] = "not-run (thorough tier only)"
				continue
			}
			if r.Reach[l] != "sat" {
				inconclusive = append(inconclusive, fmt.Sprintf("%s: reachability witness %q is %s (vacuity guard)", r.Name, l, r.Reach[l]))
			}
		}
		hs["reach_witnesses"] = reach
		if len(r.ReachSample) > 0 {
			hs["witness_inputs"] = r.ReachSample
		}
		if len(r.Dropped) > 0 {
			hs["dropped"] = r.Dropped
		}
		if len(r.Overflow) > 0 {
			hs["overflow_paths_not_explored"] = r.Overflow
		}
		st := map[string]int{}
		for k, v := range r.Stats {
			if strings.HasPrefix(k, "reach:") || strings.HasPrefix(k, "assert-trivial:") {
				continue
			}
			st[k] = v
		}
		hs["model_stats"] = st
		hs["pure_callee_merges"] = r.Merges
		samples = append(samples, hs)
	}
	var fnames []string
	for f := range funcs {
		fnames = append(fnames, f)
	}
	sort.Strings(fnames)
	var fenc []map[string]string
	comdexFns := 0
	for _, f := range fnames {
		if strings.Contains(f, comdexPath) && !strings.Contains(f, "/zzvp.") && !strings.Contains(f, ".VP_") {
			comdexFns++
		}
		fenc = append(fenc, map[string]string{"name": f, "ssa_hash": funcs[f]})
	}
	assumptions = append(assumptions, standardAssumptions...)
	ev := map[string]interface{}{
		"property_id": cfg.prop, "tier": tier, "seed": cfg.seed, "level": "other",
		"coverage": map[string]interface{}{
			"explanation": fmt.Sprintf("Bounded symbolic verification: %d harness function(s) executed symbolically from go/ssa built from /repo's working tree (%d comdex functions encoded, %d in total); every assertion instance is one SMT query (negated assertion under the path condition) decided by a fresh z3 %s process%s; unsat = holds for every input within the stated bounds. %d paths explored, %d dropped (reasons listed).",
				len(results), comdexFns, len(fnames), "5.1.0", map[bool]string{true: " and re-run on z3 4.8.12", false: ""}[cfg.cross], totalPaths, droppedPaths),
			"obligations": obligations, "discharged": discharged,
			"queries":               map[string]int{"unsat": qUnsat, "sat": qSat, "unknown": qUnknown},
			"evaluations":           evals,
			"distinct_nontrivial":   distinct,
			"rule":                  "evaluations = all solver queries (branch feasibility + final); distinct_nontrivial = assertion instances (one per assertion per explored path) whose formula was not syntactically true and was sent to the solver",
			"samples":               samples,
			"functions_encoded":     fenc,
			"bounds":                bounds,
			"paths_explored":        totalPaths,
			"paths_dropped":         dropReasons,
			"solver_time_s":         round2(solverS),
			"load_and_ssa_build_s":  round2(loadS),
			"cross_checked_queries": cross,
			"harness_files":         files,
			"packages_loaded":       pats,
			"inconclusive":          inconclusive,
		},
		"assumptions": assumptions,
		"wall_s":      round2(wallS),
		"violations":  violations,
	}
	os.MkdirAll(filepath.Join(cfg.verif, "evidence"), 0o755)
	b, _ := json.MarshalIndent(ev, "", " ")
	os.WriteFile(filepath.Join(cfg.verif, "evidence", cfg.prop+".json"), b, 0o644)
	for _, l := range lines {
		fmt.Println(l)
	}
	for _, l := range inconclusive {
		fmt.Println("INCONCLUSIVE property=" + cfg.prop + " " + l)
	}
	fmt.Printf("SUMMARY property=%s tier=%s harnesses=%d obligations=%d discharged=%d unsat=%d sat=%d unknown=%d paths=%d dropped=%d wall=%.1fs\n",
		cfg.prop, tier, len(results), obligations, discharged, qUnsat, qSat, qUnknown, totalPaths, droppedPaths, wallS)
	if violations > 0 {
		return 1
	}
	if len(inconclusive) > 0 {
		return 2
	}
	return 0
}

func round2(f float64) float64 { return float64(int(f*100+0.5)) / 100 }

// nativeReplay runs tools/replay.py on a saved counterexample. Verdicts: reproduced | not-reproduced | not-replayable | error
func nativeReplay(cfg *Config, dir string) (string, string) {
	if os.Getenv("VP_NO_REPLAY") != "" {
		return "not-run", "VP_NO_REPLAY set"
	}
	script := filepath.Join(cfg.verif, "tools", "replay.py")
	if _, err := os.Stat(script); err != nil {
		return "not-run", "tools/replay.py missing"
	}
	cmd := exec.Command("python3", script, dir)
	cmd.Env = append(os.Environ(), "VP_REPO="+cfg.repo)
	out, _ := cmd.CombinedOutput()
	line := strings.TrimSpace(string(out))
	if i := strings.Index(line, "REPLAY "); i >= 0 {
		line = line[i+len("REPLAY "):]
	}
	if j := strings.IndexByte(line, '\n'); j >= 0 {
		line = line[:j]
	}
	os.WriteFile(filepath.Join(dir, "native_replay.txt"), out, 0o644)
	for _, v := range []string{"reproduced", "not-reproduced-env", "not-reproduced", "not-replayable"} {
		if strings.HasPrefix(line, v+":") {
			return v, strings.TrimSpace(line[len(v)+1:])
		}
	}
	return "error", line
}

func saveCex(cfg *Config, cexDir string, r *HarnessResult, st *AssertStat) string {
	d := filepath.Join(cexDir, r.Name+"-"+sanitize(st.Label))
	os.MkdirAll(d, 0o755)
	q := st.FirstSat
	if q.File != "" {
		if b, err := os.ReadFile(q.File); err == nil {
			os.WriteFile(filepath.Join(d, "query.smt2"), b, 0o644)
		}
	}
	// the path's inputs in call order with the model's values (inputs the query does not mention are unconstrained: 0)
	var seq []map[string]string
	for _, kn := range q.InSeq {
		i := strings.IndexByte(kn, ':')
		v, ok := q.Model[kn[i+1:]]
		if kn[:i] == "rcap" {
			v, ok = kn[i+1:], true
		}
		if !ok {
			v = "0"
			if kn[:i] == "bool" || kn[:i] == "rbool" {
				v = "false"
			}
		}
		seq = append(seq, map[string]string{"kind": kn[:i], "name": kn[i+1:], "value": v})
	}
	m := map[string]interface{}{"property": cfg.prop, "harness": r.Name, "assertion": st.Label, "inputs": q.Values, "replay_inputs": seq, "tier": cfg.tier,
		"model_of_pre_state_symbols": q.Model, "solver": z3Main, "cross_check": q.Cross, "sat_instances": st.Sat, "choices": q.Choices,
		"how_to_read": "inputs are the harness's zzvp.Any*() values in call order (index:kind:smt-name); query.smt2 is the self-contained SMT-LIB query (path condition + negated assertion) that z3 answered sat"}
	b, _ := json.MarshalIndent(m, "", " ")
	os.WriteFile(filepath.Join(d, "counterexample.json"), b, 0o644)
	return d
}

var standardAssumptions = []string{
	"environment model of DESIGN.md section 4: abstract KV store keyed by the real key constructors, codec = snapshot (marshal/unmarshal identity), bank = balance function with SDK send/mint/burn semantics, context accessors symbolic",
	"cosmossdk.io/math Int/LegacyDec operations are intrinsics with the semantics of v1.1.2 (relational division, banker's rounding, 256/315-bit overflow panics)",
	"strings are abstract identifiers (equality only); formatting is an injective uninterpreted function",
	"slices have concrete lengths; havocked slice fields are case-split over lengths 0..slice-len",
	"times are whole seconds",
}

var prelude = []string{
	"(declare-fun bal0 (Int Int) Int)",
	"(declare-fun sup0 (Int) Int)",
	"(define-fun modaddr ((x Int)) Int (- (- 1) x))",
	"(declare-fun addrof (Int) Int)",
	"(declare-fun addrofbytes (Int) Int)",
	"(declare-fun bech32ok (Int) Bool)",
	"(declare-fun bech32of (Int) Int)",
	"(declare-fun bytestr (Int) Int)",
	"(declare-fun strcat (Int Int) Int)",
	"(declare-fun bcat (Int Int) Int)",
	"(declare-fun strlt (Int Int) Bool)",
	"(declare-fun strlen (Int) Int)",
	"(declare-fun strofint (Int) Int)",
	"(declare-fun strofdec (Int) Int)",
	"(declare-fun strlower (Int) Int)",
	"(declare-fun deraddr (Int Int) Int)",
	"(declare-fun deraddr2 (Int Int) Int)",
	"(declare-fun deraddr_m (Int) Int)",
	"(declare-fun deraddr_k (Int) Int)",
	"(declare-fun fmtfloat18 (Real) Int)",
}
