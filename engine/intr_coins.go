// sdk.Coins as a finite list of (denom, amount) with concrete length; denominations and amounts may be symbolic.
// Denomination syntax (regex validation) is assumed to pass. Sorting is not modelled (order is irrelevant to the bank model).
package main

import (
	"go/types"

	"golang.org/x/tools/go/ssa"
)

// decide: is cond true on this path? If the solver cannot decide, the state is forked and the instruction re-executed.
func (e *Exec) decide(s *State, cond string) (bool, []*State) {
	if cond == "true" {
		return true, nil
	}
	if cond == "false" {
		return false, nil
	}
	if e.sol.check(s.PC, tNot(cond)) == "unsat" {
		return true, nil
	}
	if e.sol.check(s.PC, cond) == "unsat" {
		return false, nil
	}
	a := s.clone()
	a.PC = append(a.PC, cond)
	top(a).Idx--
	s.PC = append(s.PC, tNot(cond))
	top(s).Idx--
	e.stats["decide-splits"]++
	return false, []*State{a, s}
}

type coinV struct {
	denom Val
	amt   string
}

func (e *Exec) coinsOf(s *State, v Val) []coinV {
	sl, ok := v.(SliceV)
	if !ok {
		panic("coins value is " + describeVal(v))
	}
	if sl.ID == 0 {
		return nil
	}
	if sl.SymLen != "" {
		panic("havocked coins list")
	}
	var out []coinV
	for _, c := range e.sliceElems(s, sl) {
		st := c.(StructV)
		b := st.F[1].(BigV)
		if b.Nil {
			panic("coin with nil amount")
		}
		out = append(out, coinV{st.F[0], b.T})
	}
	return out
}

func (e *Exec) mkCoins(s *State, cs []coinV) Val {
	if len(cs) == 0 {
		return SliceV{}
	}
	el := make([]Val, len(cs))
	for i, c := range cs {
		el[i] = StructV{[]Val{c.denom, BigV{T: c.amt}}}
	}
	return e.newSlice(s, el)
}

// addCoin merges one coin into a list (sum on equal denomination). May fork (returns forks != nil).
func (e *Exec) addCoin(s *State, list []coinV, c coinV, sign int) ([]coinV, []*State) {
	for i := range list {
		eq, forks := e.decide(s, e.valEq(list[i].denom, c.denom))
		if forks != nil {
			return nil, forks
		}
		if eq {
			out := append([]coinV{}, list...)
			if sign > 0 {
				out[i].amt = tAdd(out[i].amt, c.amt)
			} else {
				out[i].amt = tSub(out[i].amt, c.amt)
			}
			return out, nil
		}
	}
	if sign < 0 {
		c.amt = tNeg(c.amt)
	}
	return append(append([]coinV{}, list...), c), nil
}

// dropZeros removes zero-amount coins (forks when undecided).
func (e *Exec) dropZeros(s *State, list []coinV) ([]coinV, []*State) {
	var out []coinV
	for _, c := range list {
		z, forks := e.decide(s, tEq(c.amt, "0"))
		if forks != nil {
			return nil, forks
		}
		if !z {
			out = append(out, c)
		}
	}
	return out, nil
}

func (e *Exec) amountOf(list []coinV, denom Val) string {
	t := "0"
	for i := len(list) - 1; i >= 0; i-- {
		t = tIte(e.valEq(list[i].denom, denom), list[i].amt, t)
	}
	return t
}

func init() {
	sdkp := "github.com/cosmos/cosmos-sdk/types."
	cs := "(github.com/cosmos/cosmos-sdk/types.Coins)."
	errT := types.Universe.Lookup("error").Type()
	_ = errT
	reg(sdkp+"NewCoins", func(e *Exec, s *State, f *Frame, x *ssa.Call, a []Val) ([]*State, bool) {
		in := e.coinsOf(s, a[0])
		var list []coinV
		for _, c := range in {
			neg, forks := e.decide(s, tCmp("<", c.amt, "0"))
			if forks != nil {
				return forks, false
			}
			if neg {
				e.startPanic(s, errIface()) // invalid coin set: negative amount
				return nil, false
			}
			// duplicate denominations are invalid
			for _, p := range list {
				dup, forks := e.decide(s, e.valEq(p.denom, c.denom))
				if forks != nil {
					return forks, false
				}
				if dup {
					e.startPanic(s, errIface())
					return nil, false
				}
			}
			list = append(list, c)
		}
		out, forks := e.dropZeros(s, list)
		if forks != nil {
			return forks, false
		}
		return ret(f, x, e.mkCoins(s, out))
	})
	reg(sdkp+"ValidateDenom", func(e *Exec, s *State, f *Frame, x *ssa.Call, a []Val) ([]*State, bool) { return ret(f, x, IfaceV{}) })
	reg(cs+"AmountOf", func(e *Exec, s *State, f *Frame, x *ssa.Call, a []Val) ([]*State, bool) {
		return ret(f, x, BigV{T: e.amountOf(e.coinsOf(s, a[0]), a[1])})
	})
	reg(cs+"AmountOfNoDenomValidation", func(e *Exec, s *State, f *Frame, x *ssa.Call, a []Val) ([]*State, bool) {
		return ret(f, x, BigV{T: e.amountOf(e.coinsOf(s, a[0]), a[1])})
	})
	reg(cs+"IsZero", func(e *Exec, s *State, f *Frame, x *ssa.Call, a []Val) ([]*State, bool) {
		var c []string
		for _, k := range e.coinsOf(s, a[0]) {
			c = append(c, tEq(k.amt, "0"))
		}
		return ret(f, x, Sym{Bool: true, S: tAnd(c...)})
	})
	reg(cs+"Empty", func(e *Exec, s *State, f *Frame, x *ssa.Call, a []Val) ([]*State, bool) {
		return ret(f, x, boolc(len(e.coinsOf(s, a[0])) == 0))
	})
	reg(cs+"Len", func(e *Exec, s *State, f *Frame, x *ssa.Call, a []Val) ([]*State, bool) {
		return ret(f, x, intc(int64(len(e.coinsOf(s, a[0])))))
	})
	reg(cs+"IsAllPositive", func(e *Exec, s *State, f *Frame, x *ssa.Call, a []Val) ([]*State, bool) {
		l := e.coinsOf(s, a[0])
		if len(l) == 0 {
			return ret(f, x, boolc(false))
		}
		var c []string
		for _, k := range l {
			c = append(c, tCmp(">", k.amt, "0"))
		}
		return ret(f, x, Sym{Bool: true, S: tAnd(c...)})
	})
	reg(cs+"IsAnyNegative", func(e *Exec, s *State, f *Frame, x *ssa.Call, a []Val) ([]*State, bool) {
		var c []string
		for _, k := range e.coinsOf(s, a[0]) {
			c = append(c, tCmp("<", k.amt, "0"))
		}
		return ret(f, x, Sym{Bool: true, S: tOr(c...)})
	})
	valid := func(e *Exec, s *State, l []coinV) string {
		var c []string
		for _, k := range l {
			c = append(c, tCmp(">", k.amt, "0"))
		}
		return tAnd(c...)
	}
	reg(cs+"IsValid", func(e *Exec, s *State, f *Frame, x *ssa.Call, a []Val) ([]*State, bool) {
		return ret(f, x, Sym{Bool: true, S: valid(e, s, e.coinsOf(s, a[0]))})
	})
	reg(cs+"Validate", func(e *Exec, s *State, f *Frame, x *ssa.Call, a []Val) ([]*State, bool) {
		ok := valid(e, s, e.coinsOf(s, a[0]))
		return e.fork(s, ok, func(t *State) { top(t).Regs[x] = IfaceV{} }, func(t *State) { top(t).Regs[x] = errIface() }), false
	})
	addSub := func(sign int, safe bool) intrinsic {
		return func(e *Exec, s *State, f *Frame, x *ssa.Call, a []Val) ([]*State, bool) {
			list := e.coinsOf(s, a[0])
			for _, c := range e.coinsOf(s, a[1]) {
				var forks []*State
				list, forks = e.addCoin(s, list, c, sign)
				if forks != nil {
					return forks, false
				}
			}
			if sign < 0 {
				// Sub panics on a negative result, SafeSub reports it
				var negs []string
				for _, c := range list {
					negs = append(negs, tCmp("<", c.amt, "0"))
				}
				anyNeg, forks := e.decide(s, tOr(negs...))
				if forks != nil {
					return forks, false
				}
				if anyNeg {
					if !safe {
						e.startPanic(s, strPanic("negative coin amount"))
						return nil, false
					}
					return ret(f, x, Tuple{e.mkCoins(s, list), boolc(true)})
				}
			}
			out, forks := e.dropZeros(s, list)
			if forks != nil {
				return forks, false
			}
			if safe {
				return ret(f, x, Tuple{e.mkCoins(s, out), boolc(false)})
			}
			return ret(f, x, e.mkCoins(s, out))
		}
	}
	reg(cs+"Add", addSub(1, false))
	reg(cs+"Sub", addSub(-1, false))
	reg(cs+"SafeSub", addSub(-1, true))
	cmpAll := func(op string, all bool) intrinsic {
		return func(e *Exec, s *State, f *Frame, x *ssa.Call, a []Val) ([]*State, bool) {
			A, B := e.coinsOf(s, a[0]), e.coinsOf(s, a[1])
			if len(B) == 0 {
				return ret(f, x, boolc(op == ">=" || len(A) > 0 && op == ">"))
			}
			var c []string
			for _, b := range B {
				c = append(c, tCmp(op, e.amountOf(A, b.denom), b.amt))
			}
			if all {
				return ret(f, x, Sym{Bool: true, S: tAnd(c...)})
			}
			return ret(f, x, Sym{Bool: true, S: tOr(c...)})
		}
	}
	reg(cs+"IsAllGTE", cmpAll(">=", true))
	reg(cs+"IsAllGT", cmpAll(">", true))
	reg(cs+"IsAnyGT", cmpAll(">", false))
	reg(cs+"IsAnyGTE", cmpAll(">=", false))
	reg(cs+"Sort", func(e *Exec, s *State, f *Frame, x *ssa.Call, a []Val) ([]*State, bool) { return ret(f, x, a[0]) })
	reg(cs+"IsEqual", func(e *Exec, s *State, f *Frame, x *ssa.Call, a []Val) ([]*State, bool) {
		A, B := e.coinsOf(s, a[0]), e.coinsOf(s, a[1])
		if len(A) != len(B) {
			return ret(f, x, boolc(false))
		}
		var c []string
		for _, b := range B {
			c = append(c, tEq(e.amountOf(A, b.denom), b.amt))
		}
		return ret(f, x, Sym{Bool: true, S: tAnd(c...)})
	})
	reg(cs+"GetDenomByIndex", func(e *Exec, s *State, f *Frame, x *ssa.Call, a []Val) ([]*State, bool) {
		l := e.coinsOf(s, a[0])
		i, _ := asConst(a[1].(Sym).S)
		return ret(f, x, l[i.Int64()].denom)
	})
}
