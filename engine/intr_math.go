// Intrinsics for cosmossdk.io/math v1.1.2 Int and LegacyDec (exact semantics incl. panics), see DESIGN 3.2.
package main

import (
	"fmt"
	"go/types"
	"math/big"
	"strings"

	"golang.org/x/tools/go/ssa"
)

const S18 = "1000000000000000000"
const S36 = "1000000000000000000000000000000000000"
const HALF18 = "500000000000000000"

var strT = types.Typ[types.String]

func strPanic(msg string) IfaceV { return IfaceV{T: strT, V: StrV{msg}} }

// checkFull: feasibility including the non-linear definitions (used where leaving them out would make an
// overflow branch look feasible on every arithmetic step).
func (s *Solver) checkFull(pc []string, capMs int, extra ...string) string {
	if s.dead {
		return "unknown"
	}
	s.sync()
	if capMs != s.curTimeout {
		s.send(fmt.Sprintf("(set-option :timeout %d)", capMs))
		s.curTimeout = capMs
	}
	s.alignStack(pc)
	s.send("(push)")
	for _, p := range pc {
		if strings.HasPrefix(p, "#def#") {
			s.send("(assert " + p[5:] + ")")
		}
	}
	for _, p := range extra {
		s.send("(assert " + p + ")")
	}
	s.send("(check-sat)")
	line := s.readLine()
	if strings.HasPrefix(line, "(error") {
		s.errors++
		line = "unknown"
	}
	s.send("(pop)")
	s.queries++
	if line != "sat" && line != "unsat" {
		return "unknown"
	}
	return line
}

// bigs extracts the mantissa terms of Int/Dec arguments; a nil receiver/argument is a runtime panic.
func (e *Exec) bigs(s *State, vs ...Val) ([]string, bool) {
	out := make([]string, len(vs))
	for i, v := range vs {
		b, ok := v.(BigV)
		if !ok {
			panic(fmt.Sprintf("expected math.Int/LegacyDec, got %T", v))
		}
		if b.Nil {
			e.runtimePanic(s, "invalid memory address or nil pointer dereference (nil math.Int/LegacyDec)")
			return nil, false
		}
		if b.NilIf != "" {
			// merged maybe-nil value: the nil case is a panic path of its own
			if e.sol.check(s.PC, b.NilIf) != "unsat" {
				if e.sol.check(s.PC, tNot(b.NilIf)) == "unsat" {
					e.runtimePanic(s, "invalid memory address or nil pointer dereference (nil math.Int/LegacyDec)")
					return nil, false
				}
				p := s.clone()
				p.PC = append(p.PC, b.NilIf)
				e.runtimePanic(p, "invalid memory address or nil pointer dereference (nil math.Int/LegacyDec)")
				s.PC = append(s.PC, tNot(b.NilIf))
				top(s).Idx-- // re-execute the operation on the non-nil side
				e.pendingForks = []*State{p, s}
				return nil, false
			}
		}
		out[i] = b.T
	}
	return out, true
}

// signOf decides the sign of t on the path: +1 (t >= 0) or -1 (t < 0). If undecided the state is forked and the
// instruction is re-executed in both successors.
func (e *Exec) signOf(s *State, t string) (int, []*State) {
	if c, ok := asConst(t); ok {
		if c.Sign() < 0 {
			return -1, nil
		}
		return 1, nil
	}
	neg := tCmp("<", t, "0")
	if e.sol.check(s.PC, neg) == "unsat" {
		return 1, nil
	}
	if e.sol.check(s.PC, tNot(neg)) == "unsat" {
		return -1, nil
	}
	e.stats["sign-splits"]++
	a := s.clone()
	a.PC = append(a.PC, tNot(neg))
	top(a).Idx--
	s.PC = append(s.PC, neg)
	top(s).Idx--
	return 0, []*State{a, s}
}

// divNonneg: relational floor division of a non-negative num by a positive den
func (e *Exec) divNonneg(s *State, num, den string) (string, string) {
	if cn, ok := asConst(num); ok {
		if cd, ok2 := asConst(den); ok2 && cd.Sign() > 0 && cn.Sign() >= 0 {
			q, r := new(big.Int).QuoRem(cn, cd, new(big.Int))
			return q.String(), r.String()
		}
	}
	// the quotient of the same two terms is the same number wherever it is computed: one (q, r) pair per (num, den),
	// so that repeated computations (and the two runs of a self-composed harness) branch on identical conditions
	key := num + "|" + den
	e.mu.Lock()
	qr, seen := e.divMemo[key]
	e.mu.Unlock()
	if !seen {
		qr = [2]string{e.sol.fresh("q", false), e.sol.fresh("r", false)}
		e.mu.Lock()
		if prev, raced := e.divMemo[key]; raced {
			qr = prev
		} else {
			e.divMemo[key] = qr
		}
		e.mu.Unlock()
	}
	q, r := qr[0], qr[1]
	def := fmt.Sprintf("(= %s (+ (* %s %s) %s))", num, q, den, r)
	if isNonlinear(def) {
		def = "#def#" + def
	}
	if seen {
		for _, c := range s.PC {
			if c == def {
				return q, r // already defined on this path
			}
		}
	}
	s.PC = append(s.PC, def, "(>= "+r+" 0)", "(< "+r+" "+den+")", "(>= "+q+" 0)")
	return q, r
}

func roundHalfEven(q, r, den string) string {
	if cr, ok := asConst(r); ok {
		if cd, ok2 := asConst(den); ok2 {
			if cq, ok3 := asConst(q); ok3 {
				two := new(big.Int).Lsh(cr, 1)
				switch two.Cmp(cd) {
				case -1:
					return q
				case 1:
					return new(big.Int).Add(cq, big.NewInt(1)).String()
				default:
					if cq.Bit(0) == 0 {
						return q
					}
					return new(big.Int).Add(cq, big.NewInt(1)).String()
				}
			}
		}
	}
	return fmt.Sprintf("(ite (< (* 2 %s) %s) %s (ite (> (* 2 %s) %s) (+ %s 1) (ite (= (mod %s 2) 0) %s (+ %s 1))))", r, den, q, r, den, q, q, q, q)
}

// guardRet is the last step of an arithmetic intrinsic: result t must satisfy |t| < lim or the library panics.
func (e *Exec) guardRet(s *State, x *ssa.Call, t string, lim string, msg string, mk func(string) Val) ([]*State, bool) {
	if c, ok := asConst(t); ok {
		l, _ := new(big.Int).SetString(lim, 10)
		if new(big.Int).Abs(c).Cmp(l) < 0 {
			top(s).Regs[x] = mk(t)
		} else {
			e.startPanic(s, strPanic(msg))
		}
		return nil, false
	}
	in := fmt.Sprintf("(and (< %s %s) (> %s (- %s)))", t, lim, t, lim)
	out := tNot(in)
	// the overflow side is checked WITH the non-linear definitions (otherwise every product could "overflow")
	if e.sol.check(s.PC, out) == "unsat" || e.sol.checkFull(s.PC, e.sol.feasTimeout*2, out) == "unsat" {
		top(s).Regs[x] = mk(t)
		return nil, false
	}
	if e.overflowAsObligation {
		// do not explore the panic side (inside a message handler it aborts the transaction); count it as not explored
		e.stats["overflow-paths-not-explored"]++
		s.PC = append(s.PC, in)
		top(s).Regs[x] = mk(t)
		return nil, false
	}
	e.stats["overflow-forks"]++
	p := s.clone()
	p.PC = append(p.PC, out)
	e.startPanic(p, strPanic(msg))
	s.PC = append(s.PC, in)
	top(s).Regs[x] = mk(t)
	return []*State{p, s}, false
}

func mkBig(t string) Val { return BigV{T: t} }

func init() {
	mi := "(cosmossdk.io/math.Int)."
	md := "(cosmossdk.io/math.LegacyDec)."
	mp := "cosmossdk.io/math."
	cmp := func(op string) intrinsic {
		return func(e *Exec, s *State, f *Frame, x *ssa.Call, a []Val) ([]*State, bool) {
			t, ok := e.bigs(s, a[0], a[1])
			if !ok {
				return nil, false
			}
			if op == "=" {
				return ret(f, x, Sym{Bool: true, S: tEq(t[0], t[1])})
			}
			return ret(f, x, Sym{Bool: true, S: tCmp(op, t[0], t[1])})
		}
	}
	un := func(mk func(t string) Val) intrinsic {
		return func(e *Exec, s *State, f *Frame, x *ssa.Call, a []Val) ([]*State, bool) {
			t, ok := e.bigs(s, a[0])
			if !ok {
				return nil, false
			}
			return ret(f, x, mk(t[0]))
		}
	}
	for _, p := range []string{mi, md} {
		reg(p+"GT", cmp(">"))
		reg(p+"GTE", cmp(">="))
		reg(p+"LT", cmp("<"))
		reg(p+"LTE", cmp("<="))
		reg(p+"Equal", cmp("="))
		reg(p+"IsZero", un(func(t string) Val { return Sym{Bool: true, S: tEq(t, "0")} }))
		reg(p+"IsPositive", un(func(t string) Val { return Sym{Bool: true, S: tCmp(">", t, "0")} }))
		reg(p+"IsNegative", un(func(t string) Val { return Sym{Bool: true, S: tCmp("<", t, "0")} }))
		reg(p+"Neg", un(func(t string) Val { return BigV{T: tNeg(t)} }))
		reg(p+"Abs", un(func(t string) Val { return BigV{T: tIte(tCmp("<", t, "0"), tNeg(t), t)} }))
		reg(p+"IsNil", func(e *Exec, s *State, f *Frame, x *ssa.Call, a []Val) ([]*State, bool) {
			return ret(f, x, Sym{Bool: true, S: bigNilTerm(a[0].(BigV))})
		})
		reg(p+"BigInt", func(e *Exec, s *State, f *Frame, x *ssa.Call, a []Val) ([]*State, bool) {
			b := a[0].(BigV)
			if b.Nil {
				return ret(f, x, Ptr{})
			}
			return ret(f, x, BigPtr{T: b.T})
		})
	}
	reg(md+"Clone", un(mkBig))
	arith := func(op func(a, b string) string, lim string) intrinsic {
		return func(e *Exec, s *State, f *Frame, x *ssa.Call, a []Val) ([]*State, bool) {
			t, ok := e.bigs(s, a[0], a[1])
			if !ok {
				return nil, false
			}
			return e.guardRet(s, x, op(t[0], t[1]), lim, "Int overflow", mkBig)
		}
	}
	reg(mi+"Add", arith(tAdd, limInt))
	reg(mi+"Sub", arith(tSub, limInt))
	reg(mi+"Mul", arith(tMul, limInt))
	reg(md+"Add", arith(tAdd, limDec))
	reg(md+"Sub", arith(tSub, limDec))
	reg(md+"MulInt", arith(tMul, limDec))
	raw := func(op func(a, b string) string) intrinsic {
		return func(e *Exec, s *State, f *Frame, x *ssa.Call, a []Val) ([]*State, bool) {
			t, ok := e.bigs(s, a[0])
			if !ok {
				return nil, false
			}
			return e.guardRet(s, x, op(t[0], a[1].(Sym).S), limInt, "Int overflow", mkBig)
		}
	}
	reg(mi+"AddRaw", raw(tAdd))
	reg(mi+"SubRaw", raw(tSub))
	reg(mi+"MulRaw", raw(tMul))
	reg(md+"MulInt64", func(e *Exec, s *State, f *Frame, x *ssa.Call, a []Val) ([]*State, bool) {
		t, ok := e.bigs(s, a[0])
		if !ok {
			return nil, false
		}
		return e.guardRet(s, x, tMul(t[0], a[1].(Sym).S), limDec, "Int overflow", mkBig)
	})
	// Int.Quo / Mod (and Raw forms): truncation toward zero / Euclidean modulus
	intQuo := func(isMod bool, rawArg bool) intrinsic {
		return func(e *Exec, s *State, f *Frame, x *ssa.Call, a []Val) ([]*State, bool) {
			var num, den string
			if rawArg {
				t, ok := e.bigs(s, a[0])
				if !ok {
					return nil, false
				}
				num, den = t[0], a[1].(Sym).S
			} else {
				t, ok := e.bigs(s, a[0], a[1])
				if !ok {
					return nil, false
				}
				num, den = t[0], t[1]
			}
			if c, isC := asConst(den); isC && c.Sign() == 0 || e.sol.check(s.PC, tNot(tEq(den, "0"))) == "unsat" {
				msg := "Division by zero"
				if isMod {
					msg = "division-by-zero"
				}
				e.startPanic(s, strPanic(msg))
				return nil, false
			}
			if e.sol.check(s.PC, tEq(den, "0")) != "unsat" {
				z := s.clone()
				z.PC = append(z.PC, tEq(den, "0"))
				msg := "Division by zero"
				if isMod {
					msg = "division-by-zero"
				}
				e.startPanic(z, strPanic(msg))
				s.PC = append(s.PC, tNot(tEq(den, "0")))
				top(s).Idx--
				return []*State{z, s}, false
			}
			sn, forks := e.signOf(s, num)
			if forks != nil {
				return forks, false
			}
			sd, forks := e.signOf(s, den)
			if forks != nil {
				return forks, false
			}
			an, ad := num, den
			if sn < 0 {
				an = tNeg(num)
			}
			if sd < 0 {
				ad = tNeg(den)
			}
			q, r := e.divNonneg(s, an, ad)
			if isMod {
				// big.Int.Mod: Euclidean, result in [0, |den|)
				if sn < 0 {
					return ret(f, x, BigV{T: tIte(tEq(r, "0"), "0", tSub(ad, r))})
				}
				return ret(f, x, BigV{T: r})
			}
			if (sn < 0) != (sd < 0) {
				q = tNeg(q)
			}
			return ret(f, x, BigV{T: q})
		}
	}
	reg(mi+"Quo", intQuo(false, false))
	reg(mi+"Mod", intQuo(true, false))
	reg(mi+"QuoRaw", intQuo(false, true))
	reg(mi+"ModRaw", intQuo(true, true))
	reg(mi+"ToLegacyDec", un(func(t string) Val { return BigV{T: tMul(t, S18)} }))
	reg(mp+"LegacyNewDecFromInt", un(func(t string) Val { return BigV{T: tMul(t, S18)} }))
	reg(mp+"LegacyOneDec", func(e *Exec, s *State, f *Frame, x *ssa.Call, a []Val) ([]*State, bool) {
		return ret(f, x, BigV{T: S18})
	})
	reg(mp+"LegacyZeroDec", func(e *Exec, s *State, f *Frame, x *ssa.Call, a []Val) ([]*State, bool) {
		return ret(f, x, BigV{T: "0"})
	})
	reg(mp+"LegacySmallestDec", func(e *Exec, s *State, f *Frame, x *ssa.Call, a []Val) ([]*State, bool) {
		return ret(f, x, BigV{T: "1"})
	})
	reg(mp+"ZeroInt", func(e *Exec, s *State, f *Frame, x *ssa.Call, a []Val) ([]*State, bool) {
		return ret(f, x, BigV{T: "0"})
	})
	reg(mp+"OneInt", func(e *Exec, s *State, f *Frame, x *ssa.Call, a []Val) ([]*State, bool) {
		return ret(f, x, BigV{T: "1"})
	})
	reg(mp+"NewInt", func(e *Exec, s *State, f *Frame, x *ssa.Call, a []Val) ([]*State, bool) {
		return ret(f, x, BigV{T: a[0].(Sym).S})
	})
	reg(mp+"NewIntFromUint64", func(e *Exec, s *State, f *Frame, x *ssa.Call, a []Val) ([]*State, bool) {
		return ret(f, x, BigV{T: a[0].(Sym).S})
	})
	reg(mp+"LegacyNewDec", func(e *Exec, s *State, f *Frame, x *ssa.Call, a []Val) ([]*State, bool) {
		return ret(f, x, BigV{T: tMul(a[0].(Sym).S, S18)})
	})
	reg(mp+"NewIntFromBigInt", func(e *Exec, s *State, f *Frame, x *ssa.Call, a []Val) ([]*State, bool) {
		switch b := a[0].(type) {
		case BigPtr:
			return e.guardRet(s, x, b.T, limInt, "NewIntFromBigInt() out of bound", mkBig)
		case Ptr:
			if b.ID == 0 {
				return ret(f, x, BigV{Nil: true, T: "0"})
			}
		}
		panic("NewIntFromBigInt of " + describeVal(a[0]))
	})
	reg(mp+"LegacyNewDecFromBigInt", func(e *Exec, s *State, f *Frame, x *ssa.Call, a []Val) ([]*State, bool) {
		return ret(f, x, BigV{T: tMul(a[0].(BigPtr).T, S18)})
	})
	minmax := func(op string) intrinsic {
		return func(e *Exec, s *State, f *Frame, x *ssa.Call, a []Val) ([]*State, bool) {
			t, ok := e.bigs(s, a[0], a[1])
			if !ok {
				return nil, false
			}
			p, q := t[0], t[1]
			// forked, not ite (measured: 2.7 s vs 24 s on the same obligation)
			return e.fork(s, tCmp(op, p, q), func(n *State) { top(n).Regs[x] = BigV{T: p} }, func(n *State) { top(n).Regs[x] = BigV{T: q} }), false
		}
	}
	reg(mp+"LegacyMinDec", minmax("<"))
	reg(mp+"LegacyMaxDec", minmax(">"))
	reg(mp+"MinInt", minmax("<"))
	reg(mp+"MaxInt", minmax(">"))

	// Dec.Mul family: chop of the 36-digit product
	decMul := func(mode int) intrinsic { // 0 round half even, 1 truncate, 2 round up
		return func(e *Exec, s *State, f *Frame, x *ssa.Call, a []Val) ([]*State, bool) {
			t, ok := e.bigs(s, a[0], a[1])
			if !ok {
				return nil, false
			}
			prod := tMul(t[0], t[1])
			sg, forks := e.signOf(s, prod)
			if forks != nil {
				return forks, false
			}
			res := e.chop(s, prod, sg, mode)
			return e.guardRet(s, x, res, limDec, "Int overflow", mkBig)
		}
	}
	reg(md+"Mul", decMul(0))
	reg(md+"MulTruncate", decMul(1))
	reg(md+"MulRoundUp", decMul(2))
	decQuo := func(mode int) intrinsic {
		return func(e *Exec, s *State, f *Frame, x *ssa.Call, a []Val) ([]*State, bool) {
			t, ok := e.bigs(s, a[0], a[1])
			if !ok {
				return nil, false
			}
			p, q := t[0], t[1]
			if e.sol.check(s.PC, tNot(tEq(q, "0"))) == "unsat" {
				e.startPanic(s, strPanic("division by zero"))
				return nil, false
			}
			if e.sol.check(s.PC, tEq(q, "0")) != "unsat" {
				z := s.clone()
				z.PC = append(z.PC, tEq(q, "0"))
				e.startPanic(z, strPanic("division by zero"))
				s.PC = append(s.PC, tNot(tEq(q, "0")))
				top(s).Idx--
				return []*State{z, s}, false
			}
			sp, forks := e.signOf(s, p)
			if forks != nil {
				return forks, false
			}
			sq, forks := e.signOf(s, q)
			if forks != nil {
				return forks, false
			}
			ap, aq := p, q
			if sp < 0 {
				ap = tNeg(p)
			}
			if sq < 0 {
				aq = tNeg(q)
			}
			neg := (sp < 0) != (sq < 0)
			var res string
			switch {
			case mode == 1 || (mode == 2 && neg):
				// trunc(trunc(p*10^36/q)/10^18) == trunc(p*10^18/q)
				qq, _ := e.divNonneg(s, tMul(ap, S18), aq)
				res = qq
			default:
				// exact two-step form of the library: q1 = trunc(|p|*10^36/|q|), then chop q1 by 10^18
				q1, _ := e.divNonneg(s, tMul(ap, S36), aq)
				q2, r2 := e.divNonneg(s, q1, S18)
				if mode == 0 {
					res = roundHalfEven(q2, r2, S18)
				} else {
					res = tIte(tEq(r2, "0"), q2, tAdd(q2, "1"))
				}
			}
			if neg {
				res = tNeg(res)
			}
			return e.guardRet(s, x, res, limDec, "Int overflow", mkBig)
		}
	}
	reg(md+"Quo", decQuo(0))
	reg(md+"QuoTruncate", decQuo(1))
	reg(md+"QuoRoundUp", decQuo(2))
	decQuoInt := func(rawArg bool) intrinsic {
		return func(e *Exec, s *State, f *Frame, x *ssa.Call, a []Val) ([]*State, bool) {
			var p, q string
			if rawArg {
				t, ok := e.bigs(s, a[0])
				if !ok {
					return nil, false
				}
				p, q = t[0], a[1].(Sym).S
			} else {
				t, ok := e.bigs(s, a[0], a[1])
				if !ok {
					return nil, false
				}
				p, q = t[0], t[1]
			}
			if e.sol.check(s.PC, tNot(tEq(q, "0"))) == "unsat" {
				e.startPanic(s, strPanic("division by zero"))
				return nil, false
			}
			if e.sol.check(s.PC, tEq(q, "0")) != "unsat" {
				z := s.clone()
				z.PC = append(z.PC, tEq(q, "0"))
				e.startPanic(z, strPanic("division by zero"))
				s.PC = append(s.PC, tNot(tEq(q, "0")))
				top(s).Idx--
				return []*State{z, s}, false
			}
			sp, forks := e.signOf(s, p)
			if forks != nil {
				return forks, false
			}
			sq, forks := e.signOf(s, q)
			if forks != nil {
				return forks, false
			}
			ap, aq := p, q
			if sp < 0 {
				ap = tNeg(p)
			}
			if sq < 0 {
				aq = tNeg(q)
			}
			qq, _ := e.divNonneg(s, ap, aq)
			if (sp < 0) != (sq < 0) {
				qq = tNeg(qq)
			}
			return ret(f, x, BigV{T: qq})
		}
	}
	reg(md+"QuoInt", decQuoInt(false))
	// ApproxSqrt of a CONSTANT: the library's own Newton iteration (cosmossdk.io/math v1.1.2 ApproxRoot, root 2) replayed on
	// the raw 18-decimal integer. A symbolic argument is not modelled (the path is reported as not explored).
	reg(md+"ApproxSqrt", func(e *Exec, s *State, f *Frame, x *ssa.Call, a []Val) ([]*State, bool) {
		t, ok := e.bigs(s, a[0])
		if !ok {
			return nil, false
		}
		d, isC := new(big.Int).SetString(t[0], 10)
		if !isC || d.Sign() < 0 {
			panic("ApproxSqrt of a symbolic or negative value")
		}
		return ret(f, x, Tuple{BigV{T: approxSqrtRaw(d).String()}, IfaceV{}})
	})
	reg(md+"QuoInt64", decQuoInt(true))
	chopTo := func(mode int, toDec bool, lim, msg string) intrinsic {
		return func(e *Exec, s *State, f *Frame, x *ssa.Call, a []Val) ([]*State, bool) {
			t, ok := e.bigs(s, a[0])
			if !ok {
				return nil, false
			}
			sg, forks := e.signOf(s, t[0])
			if forks != nil {
				return forks, false
			}
			res := e.chop(s, t[0], sg, mode)
			if toDec {
				res = tMul(res, S18)
			}
			if lim == "" {
				return ret(f, x, BigV{T: res})
			}
			return e.guardRet(s, x, res, lim, msg, mkBig)
		}
	}
	reg(md+"TruncateInt", chopTo(1, false, limInt, "NewIntFromBigInt() out of bound"))
	reg(md+"RoundInt", chopTo(0, false, limInt, "NewIntFromBigInt() out of bound"))
	reg(md+"TruncateDec", chopTo(1, true, "", ""))
	reg(md+"Ceil", chopTo(3, true, "", ""))
	toI64 := func(mode int) intrinsic {
		return func(e *Exec, s *State, f *Frame, x *ssa.Call, a []Val) ([]*State, bool) {
			t, ok := e.bigs(s, a[0])
			if !ok {
				return nil, false
			}
			sg, forks := e.signOf(s, t[0])
			if forks != nil {
				return forks, false
			}
			res := e.chop(s, t[0], sg, mode)
			in := tAnd(tCmp("<", res, "9223372036854775808"), tCmp(">=", res, "(- 9223372036854775808)"))
			return e.fork(s, in, func(n *State) { top(n).Regs[x] = Sym{S: res} }, func(n *State) { e.startPanic(n, strPanic("Int64() out of bound")) }), false
		}
	}
	reg(md+"TruncateInt64", toI64(1))
	reg(md+"RoundInt64", toI64(0))
	reg(md+"IsInteger", func(e *Exec, s *State, f *Frame, x *ssa.Call, a []Val) ([]*State, bool) {
		t, ok := e.bigs(s, a[0])
		if !ok {
			return nil, false
		}
		return ret(f, x, Sym{Bool: true, S: "(= (mod " + t[0] + " " + S18 + ") 0)"})
	})
	reg(mi+"Sign", un(func(t string) Val { return Sym{S: tIte(tCmp(">", t, "0"), "1", tIte(tCmp("<", t, "0"), "(- 1)", "0"))} }))
	reg(mi+"Int64", func(e *Exec, s *State, f *Frame, x *ssa.Call, a []Val) ([]*State, bool) {
		t, ok := e.bigs(s, a[0])
		if !ok {
			return nil, false
		}
		in := tAnd(tCmp("<", t[0], "9223372036854775808"), tCmp(">=", t[0], "(- 9223372036854775808)"))
		return e.fork(s, in, func(n *State) { top(n).Regs[x] = Sym{S: t[0]} }, func(n *State) { e.startPanic(n, strPanic("Int64() out of bound")) }), false
	})
	reg(mi+"Uint64", func(e *Exec, s *State, f *Frame, x *ssa.Call, a []Val) ([]*State, bool) {
		t, ok := e.bigs(s, a[0])
		if !ok {
			return nil, false
		}
		in := tAnd(tCmp("<", t[0], "18446744073709551616"), tCmp(">=", t[0], "0"))
		return e.fork(s, in, func(n *State) { top(n).Regs[x] = Sym{S: t[0]} }, func(n *State) { e.startPanic(n, strPanic("Uint64() out of bounds")) }), false
	})
	reg(mi+"IsInt64", un(func(t string) Val {
		return Sym{Bool: true, S: tAnd(tCmp("<", t, "9223372036854775808"), tCmp(">=", t, "(- 9223372036854775808)"))}
	}))
	reg(mi+"IsUint64", un(func(t string) Val {
		return Sym{Bool: true, S: tAnd(tCmp("<", t, "18446744073709551616"), tCmp(">=", t, "0"))}
	}))
	cint := func(v Val) *big.Int {
		n, ok := asConst(v.(Sym).S)
		if !ok {
			panic("non-constant int in constructor")
		}
		return n
	}
	reg(mp+"NewIntWithDecimal", func(e *Exec, s *State, f *Frame, x *ssa.Call, a []Val) ([]*State, bool) {
		p := new(big.Int).Exp(big.NewInt(10), cint(a[1]), nil)
		return ret(f, x, BigV{T: tMul(a[0].(Sym).S, p.String())})
	})
	reg(mp+"LegacyNewDecWithPrec", func(e *Exec, s *State, f *Frame, x *ssa.Call, a []Val) ([]*State, bool) {
		pr := cint(a[1])
		if pr.Sign() < 0 || pr.Cmp(big.NewInt(18)) > 0 {
			e.startPanic(s, strPanic("precision out of range"))
			return nil, false
		}
		p := new(big.Int).Exp(big.NewInt(10), new(big.Int).Sub(big.NewInt(18), pr), nil)
		return ret(f, x, BigV{T: tMul(a[0].(Sym).S, p.String())})
	})
	reg(mp+"LegacyNewDecFromIntWithPrec", func(e *Exec, s *State, f *Frame, x *ssa.Call, a []Val) ([]*State, bool) {
		t, ok := e.bigs(s, a[0])
		if !ok {
			return nil, false
		}
		p := new(big.Int).Exp(big.NewInt(10), new(big.Int).Sub(big.NewInt(18), cint(a[1])), nil)
		return ret(f, x, BigV{T: tMul(t[0], p.String())})
	})
	parseDec := func(str string) (string, bool) {
		r, ok := new(big.Rat).SetString(str)
		if !ok {
			return "", false
		}
		r.Mul(r, new(big.Rat).SetInt(new(big.Int).Exp(big.NewInt(10), big.NewInt(18), nil)))
		if !r.IsInt() {
			return "", false
		}
		return smtInt(r.Num()), true
	}
	reg(mp+"LegacyMustNewDecFromStr", func(e *Exec, s *State, f *Frame, x *ssa.Call, a []Val) ([]*State, bool) {
		sv, isC := a[0].(StrV)
		if !isC {
			panic("LegacyMustNewDecFromStr of a symbolic string")
		}
		t, ok := parseDec(sv.S)
		if !ok {
			e.startPanic(s, errIface())
			return nil, false
		}
		return ret(f, x, BigV{T: t})
	})
	reg(mp+"LegacyNewDecFromStr", func(e *Exec, s *State, f *Frame, x *ssa.Call, a []Val) ([]*State, bool) {
		sv, isC := a[0].(StrV)
		if !isC {
			// parse of a formatted float etc.: see float contracts
			if sy, ok := a[0].(SymStr); ok && strings.HasPrefix(sy.T, "(fmtfloat18 ") {
				return e.decFromFormattedFloat(s, f, x, sy)
			}
			// parsing back a formatted Int / Dec (amounts are passed as strings in x/lend)
			if sy, ok := a[0].(SymStr); ok && strings.HasPrefix(sy.T, "(strofint ") && balanced(sy.T) {
				return ret(f, x, Tuple{BigV{T: tMul(sy.T[len("(strofint "):len(sy.T)-1], S18)}, IfaceV{}})
			}
			if sy, ok := a[0].(SymStr); ok && strings.HasPrefix(sy.T, "(strofdec ") && balanced(sy.T) {
				return ret(f, x, Tuple{BigV{T: sy.T[len("(strofdec ") : len(sy.T)-1]}, IfaceV{}})
			}
			panic("LegacyNewDecFromStr of a symbolic string")
		}
		t, ok := parseDec(sv.S)
		if !ok {
			return ret(f, x, Tuple{BigV{Nil: true, T: "0"}, errIface()})
		}
		return ret(f, x, Tuple{BigV{T: t}, IfaceV{}})
	})
	reg(mp+"NewIntFromString", func(e *Exec, s *State, f *Frame, x *ssa.Call, a []Val) ([]*State, bool) {
		sv, isC := a[0].(StrV)
		if !isC {
			panic("NewIntFromString of a symbolic string")
		}
		n, ok := new(big.Int).SetString(sv.S, 10)
		if !ok {
			return ret(f, x, Tuple{BigV{Nil: true, T: "0"}, boolc(false)})
		}
		return ret(f, x, Tuple{BigV{T: smtInt(n)}, boolc(true)})
	})
	reg("math/bits.Add64", func(e *Exec, s *State, f *Frame, x *ssa.Call, a []Val) ([]*State, bool) {
		t := tAdd(tAdd(a[0].(Sym).S, a[1].(Sym).S), a[2].(Sym).S)
		ov := tCmp(">=", t, "18446744073709551616")
		return ret(f, x, Tuple{Sym{S: tIte(ov, tSub(t, "18446744073709551616"), t)}, Sym{S: tIte(ov, "1", "0")}})
	})
	reg("math/bits.Div64", func(e *Exec, s *State, f *Frame, x *ssa.Call, a []Val) ([]*State, bool) {
		hi, lo, y := a[0].(Sym).S, a[1].(Sym).S, a[2].(Sym).S
		bad := tOr(tEq(y, "0"), tCmp("<=", y, hi))
		return e.fork(s, bad, func(t *State) {
			e.runtimePanic(t, "integer overflow / divide by zero in bits.Div64")
		}, func(t *State) {
			q, r := e.divNonneg(t, tAdd(tMul(hi, "18446744073709551616"), lo), y)
			top(t).Regs[x] = Tuple{Sym{S: q}, Sym{S: r}}
		}), false
	})
	// concrete string helpers (panic classification in utils.IsOverflow)
	reg("strings.ToLower", func(e *Exec, s *State, f *Frame, x *ssa.Call, a []Val) ([]*State, bool) {
		if sv, ok := a[0].(StrV); ok {
			return ret(f, x, StrV{strings.ToLower(sv.S)})
		}
		return ret(f, x, SymStr{T: "(strlower " + e.strID(a[0]) + ")"})
	})
	reg("strings.ToUpper", func(e *Exec, s *State, f *Frame, x *ssa.Call, a []Val) ([]*State, bool) {
		return ret(f, x, StrV{strings.ToUpper(a[0].(StrV).S)})
	})
	reg("strings.Contains", func(e *Exec, s *State, f *Frame, x *ssa.Call, a []Val) ([]*State, bool) {
		return ret(f, x, boolc(strings.Contains(a[0].(StrV).S, a[1].(StrV).S)))
	})
	reg("strings.HasSuffix", func(e *Exec, s *State, f *Frame, x *ssa.Call, a []Val) ([]*State, bool) {
		return ret(f, x, boolc(strings.HasSuffix(a[0].(StrV).S, a[1].(StrV).S)))
	})
	reg("strings.HasPrefix", func(e *Exec, s *State, f *Frame, x *ssa.Call, a []Val) ([]*State, bool) {
		return ret(f, x, boolc(strings.HasPrefix(a[0].(StrV).S, a[1].(StrV).S)))
	})
	reg("strings.ReplaceAll", func(e *Exec, s *State, f *Frame, x *ssa.Call, a []Val) ([]*State, bool) {
		return ret(f, x, StrV{strings.ReplaceAll(a[0].(StrV).S, a[1].(StrV).S, a[2].(StrV).S)})
	})
	reg("strings.TrimSpace", func(e *Exec, s *State, f *Frame, x *ssa.Call, a []Val) ([]*State, bool) {
		if sv, ok := a[0].(StrV); ok {
			return ret(f, x, StrV{strings.TrimSpace(sv.S)})
		}
		// symbolic strings are assumed to carry no surrounding white space (stated approximation)
		return ret(f, x, a[0])
	})
}

// BigPtr: a *big.Int obtained from Int.BigInt()/Dec.BigInt() (read-only use)
type BigPtr struct{ T string }

// chop: division of a 10^18-scaled integer t by 10^18. sg is the decided sign of t.
// mode 0: banker's rounding on |t|; 1: truncation toward zero; 2: round up (away from zero for positives, truncation for negatives);
// 3: ceiling (toward +inf).
func (e *Exec) chop(s *State, t string, sg int, mode int) string {
	abs := t
	if sg < 0 {
		abs = tNeg(t)
	}
	q, r := e.divNonneg(s, abs, S18)
	var res string
	switch mode {
	case 0:
		res = roundHalfEven(q, r, S18)
	case 1:
		res = q
	case 2:
		if sg < 0 {
			res = q
		} else {
			res = tIte(tEq(r, "0"), q, tAdd(q, "1"))
		}
	case 3:
		if sg < 0 {
			res = q // -q is already the ceiling of a negative number
		} else {
			res = tIte(tEq(r, "0"), q, tAdd(q, "1"))
		}
	}
	if sg < 0 {
		res = tNeg(res)
	}
	return res
}

// approxSqrtRaw: LegacyDec.ApproxRoot(2) of cosmossdk.io/math v1.1.2 on raw 18-decimal integers (d >= 0)
func approxSqrtRaw(d *big.Int) *big.Int {
	one := new(big.Int).Exp(big.NewInt(10), big.NewInt(18), nil)
	half := new(big.Int).Quo(one, big.NewInt(2))
	sq := new(big.Int).Mul(one, one)
	if d.Sign() == 0 || d.Cmp(one) == 0 {
		return new(big.Int).Set(d)
	}
	guess, delta := new(big.Int).Set(one), new(big.Int).Set(one)
	for iter := 0; new(big.Int).Abs(delta).Cmp(big.NewInt(1)) > 0 && iter < 300; iter++ {
		prev := new(big.Int).Set(guess)
		if prev.Sign() == 0 {
			prev = big.NewInt(1)
		}
		q := new(big.Int).Mul(d, sq)
		q.Quo(q, prev)
		// chopPrecisionAndRound (banker's rounding), q >= 0
		quo, rem := new(big.Int).QuoRem(q, one, new(big.Int))
		switch c := rem.Cmp(half); {
		case c > 0:
			quo.Add(quo, big.NewInt(1))
		case c == 0 && quo.Bit(0) == 1:
			quo.Add(quo, big.NewInt(1))
		}
		delta = quo.Sub(quo, guess)
		delta.Rsh(delta, 1)
		guess.Add(guess, delta)
	}
	return guess
}
