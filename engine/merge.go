// State merging over regions (DESIGN.md 3.2): a callee, or the two arms of an `if` up to its immediate post-dominator,
// is explored in isolation and the states that come out at the same program point are merged into one state whose
// registers, heap cells, store/bank write logs and pending assertions are if-then-else terms over the arms' path
// conditions. This replaces the multiplication of independent branches (2^k paths for k optional steps) by one path.
// Anything that cannot be merged (different dynamic types, slices of different length, panics) stays a separate path.
package main

import (
	"sync/atomic"
	"fmt"
	"go/types"
	"reflect"
	"strings"
	"sync"

	"golang.org/x/tools/go/ssa"
)

type cfgInfo struct {
	ipdom    map[*ssa.BasicBlock]*ssa.BasicBlock
	nphi     map[*ssa.BasicBlock]int
	usedFrom map[*ssa.BasicBlock]map[ssa.Value]bool // values referenced in blocks reachable from the block (incl. itself)
}

var cfgCache sync.Map // *ssa.Function -> *cfgInfo

func cfgOf(fn *ssa.Function) *cfgInfo {
	if v, ok := cfgCache.Load(fn); ok {
		return v.(*cfgInfo)
	}
	n := len(fn.Blocks)
	ci := &cfgInfo{ipdom: map[*ssa.BasicBlock]*ssa.BasicBlock{}, nphi: map[*ssa.BasicBlock]int{}, usedFrom: map[*ssa.BasicBlock]map[ssa.Value]bool{}}
	// post-dominator sets over the reversed CFG with a virtual exit (index n)
	full := make([]bool, n+1)
	for i := range full {
		full[i] = true
	}
	pd := make([][]bool, n+1)
	for i := 0; i <= n; i++ {
		pd[i] = append([]bool{}, full...)
	}
	pd[n] = make([]bool, n+1)
	pd[n][n] = true
	succs := func(b *ssa.BasicBlock) []int {
		if len(b.Succs) == 0 {
			return []int{n}
		}
		out := make([]int, len(b.Succs))
		for i, s := range b.Succs {
			out[i] = s.Index
		}
		return out
	}
	for changed := true; changed; {
		changed = false
		for i := n - 1; i >= 0; i-- {
			b := fn.Blocks[i]
			nw := append([]bool{}, full...)
			for _, s := range succs(b) {
				for k := range nw {
					nw[k] = nw[k] && pd[s][k]
				}
			}
			nw[i] = true
			if !reflect.DeepEqual(nw, pd[i]) {
				pd[i] = nw
				changed = true
			}
		}
	}
	size := func(s []bool) int {
		c := 0
		for _, v := range s {
			if v {
				c++
			}
		}
		return c
	}
	for i, b := range fn.Blocks {
		best, bestSize := -1, -1
		for k := 0; k < n; k++ {
			if k != i && pd[i][k] {
				if sz := size(pd[k]); sz > bestSize {
					best, bestSize = k, sz
				}
			}
		}
		if best >= 0 {
			ci.ipdom[b] = fn.Blocks[best]
		}
		np := 0
		for _, in := range b.Instrs {
			if _, ok := in.(*ssa.Phi); ok {
				np++
			} else {
				break
			}
		}
		ci.nphi[b] = np
	}
	// values used per block, then closure over reachability
	used := make([]map[ssa.Value]bool, n)
	for i, b := range fn.Blocks {
		used[i] = map[ssa.Value]bool{}
		var ops []*ssa.Value
		for _, in := range b.Instrs {
			ops = in.Operands(ops[:0])
			for _, o := range ops {
				if o != nil && *o != nil {
					used[i][*o] = true
				}
			}
		}
	}
	for i, b := range fn.Blocks {
		seen := map[int]bool{}
		acc := map[ssa.Value]bool{}
		stack := []*ssa.BasicBlock{b}
		for len(stack) > 0 {
			c := stack[len(stack)-1]
			stack = stack[:len(stack)-1]
			if seen[c.Index] {
				continue
			}
			seen[c.Index] = true
			for v := range used[c.Index] {
				acc[v] = true
			}
			stack = append(stack, c.Succs...)
		}
		_ = i
		ci.usedFrom[b] = acc
	}
	cfgCache.Store(fn, ci)
	return ci
}

const regionMaxStates = 3000
const regionMaxOut = 96

// exploreRegion steps the given states until stop(s) holds (collected in reached). States that leave the region in
// another way (panic unwinding below the region, end of path) are returned in escaped; if the budget is exhausted the
// unfinished states are returned in escaped as well (they are ordinary successor states, nothing is lost).
func (e *Exec) exploreRegion(start []*State, stop func(*State) bool, escape func(*State) bool) (reached, escaped []*State) {
	work := append([]*State{}, start...)
	count := 0
	for len(work) > 0 {
		cur := work[len(work)-1]
		work = work[:len(work)-1]
		if count > regionMaxStates || len(reached) > regionMaxOut {
			escaped = append(escaped, cur)
			continue
		}
		func() {
			defer func() {
				if r := recover(); r != nil {
					why := fmt.Sprint(r)
					if de, ok := r.(dropErr); ok {
						why = de.why
					}
					if len(why) > 160 {
						why = why[:160]
					}
					where := ""
					if len(cur.Frames) > 0 {
						where = " @ " + top(cur).Fn.String()
					}
					cur.Dead = true
					if e.finishFn != nil {
						e.finishFn(outcome{"dropped", cur, why + where})
					}
				}
			}()
			for {
				if stop(cur) {
					reached = append(reached, cur)
					return
				}
				if len(cur.Frames) == 0 || escape(cur) {
					escaped = append(escaped, cur)
					return
				}
				cur.Steps++
				count++
				if cur.Steps > e.maxSteps {
					e.drop("step limit")
				}
				forks, done := e.step(cur)
				if forks != nil {
					if len(forks) == 0 {
						if e.finishFn != nil && !cur.Dead {
							cur.Dead = true
							e.finishFn(outcome{"infeasible", cur, ""})
						}
						return
					}
					work = append(work, forks[:len(forks)-1]...)
					cur = forks[len(forks)-1]
					continue
				}
				if done {
					escaped = append(escaped, cur)
					return
				}
			}
		}()
	}
	return
}

// callRegion: execute a comdex callee as a region and merge its normal returns.
func (e *Exec) callRegion(s *State, fn Val, args []Val, x *ssa.Call) []*State {
	depth := len(s.Frames)
	nPC, nAs := len(s.PC), len(s.Asserts)
	basePC := append([]string{}, s.PC...)
	mark := int(atomic.LoadInt64(&e.objSeq))
	e.pushCall(s, fn, args, x, false)
	reached, escaped := e.exploreRegion([]*State{s},
		func(t *State) bool { return len(t.Frames) == depth && !top(t).Panicking },
		func(t *State) bool { return len(t.Frames) < depth || (len(t.Frames) == depth && top(t).Panicking) })
	merged := e.mergeStates(basePC, nPC, nAs, reached, mark)
	return append(append([]*State{}, merged...), escaped...) // never nil: an empty list ends the path
}

// ifRegion: both arms of a symbolic `if` are explored up to the immediate post-dominator and merged there.
func (e *Exec) ifRegion(arms []*State, fn *ssa.Function, J *ssa.BasicBlock, depth int, basePC []string, nAs int) []*State {
	np := cfgOf(fn).nphi[J]
	mark := int(atomic.LoadInt64(&e.objSeq))
	reached, escaped := e.exploreRegion(arms,
		func(t *State) bool {
			if len(t.Frames) != depth {
				return false
			}
			f := top(t)
			return !f.Panicking && f.Fn == fn && f.Blk == J && f.Idx == np
		},
		func(t *State) bool { return len(t.Frames) < depth || (len(t.Frames) == depth && top(t).Panicking) })
	merged := e.mergeStates(basePC, len(basePC), nAs, reached, mark)
	return append(append([]*State{}, merged...), escaped...)
}

func (e *Exec) mergeStates(basePC []string, nPC, nAs int, sts []*State, mark int) []*State {
	if len(sts) <= 1 {
		return sts
	}
	e.mergeMark = mark // objects with a larger id were allocated inside the region
	var out []*State
	for _, st := range sts {
		done := false
		for i, r := range out {
			if m, ok := e.mergeTwo(basePC, nPC, nAs, r, st); ok {
				out[i] = m
				done = true
				e.stats["region-merges"]++
				break
			}
		}
		if !done {
			out = append(out, st)
		}
	}
	return out
}

type mergeFail struct{ why string }

func mfail(why string) { panic(mergeFail{why}) }

func suffixCond(pc []string, n int) string { return tAnd(stripDefs(pc[n:])...) }

// mergeTwo merges B into A (both derived from the same base state, stopped at the same program point).
func (e *Exec) mergeTwo(basePC []string, nPC, nAs int, A, B *State) (M *State, ok bool) {
	defer func() {
		if r := recover(); r != nil {
			if mf, isMF := r.(mergeFail); isMF {
				e.stats["region-merge-refused:"+mf.why]++
			} else {
				e.stats["region-merge-refused:"+trunc(fmt.Sprint(r), 60)]++
			}
			M, ok = nil, false
		}
	}()
	if len(A.Frames) != len(B.Frames) {
		mfail("frame depth")
	}
	if !reflect.DeepEqual(A.Choices, B.Choices) {
		mfail("choices")
	}
	if A.Panic != nil || B.Panic != nil {
		mfail("panicking")
	}
	ea, eb := A.env(), B.env()
	if ea.FaultAt != "" || eb.FaultAt != "" {
		mfail("fault injection active")
	}
	for i := range A.Frames {
		fa, fb := A.Frames[i], B.Frames[i]
		if fa.Fn != fb.Fn || fa.Blk != fb.Blk || fa.Idx != fb.Idx || fa.Panicking != fb.Panicking || fa.IsDefer != fb.IsDefer || len(fa.Defers) != len(fb.Defers) || fa.RetTo != fb.RetTo {
			mfail("frame position")
		}
	}
	if len(A.Spy) != len(B.Spy) {
		mfail("stub call log differs")
	}
	cA, cB := suffixCond(A.PC, nPC), suffixCond(B.PC, nPC)
	if cA == "true" || cB == "true" {
		mfail("unconditional arm")
	}
	M = A.clone()
	M.PC = append([]string{}, basePC...)
	// the arms' conditions get short names (terms are strings without sharing)
	var names []string
	if len(cA) > 60 {
		g := e.sol.fresh("arm", true)
		names = append(names, "#name#(= "+g+" "+cA+")")
		cA = g
	}
	if len(cB) > 60 {
		g := e.sol.fresh("arm", true)
		names = append(names, "#name#(= "+g+" "+cB+")")
		cB = g
	}
	for _, arm := range []struct {
		pc []string
		c  string
	}{{A.PC[nPC:], cA}, {B.PC[nPC:], cB}} {
		for _, c := range arm.pc {
			if strings.HasPrefix(c, "#def#") {
				M.PC = append(M.PC, "#def#(=> "+arm.c+" "+c[5:]+")")
			} else if strings.HasPrefix(c, "#name#") {
				M.PC = append(M.PC, c) // definitions of fresh names hold unconditionally
			}
		}
	}
	prevSink, prevBase := e.nameSink, e.mergeBase
	e.nameSink = &names
	e.mergeBase = basePC
	defer func() { e.mergeBase = prevBase }()
	defer func() { e.nameSink = prevSink }()
	ite := func(a, b Val) Val { return e.iteValM(cA, a, b, A, B, M) }
	// registers of the top frame (lower frames cannot be written from inside the region)
	ta, tb, tm := top(A), top(B), top(M)
	var live map[ssa.Value]bool
	for k, va := range ta.Regs {
		vb, has := tb.Regs[k]
		if !has {
			continue
		}
		if valIdentical(va, vb) {
			continue
		}
		v, ok := tryIte(ite, va, vb)
		if ok {
			tm.Regs[k] = v
			continue
		}
		if live == nil {
			live = cfgOf(ta.Fn).usedFrom[ta.Blk]
		}
		if live[k] {
			mfail("live register differs: " + trunc(fmt.Sprintf("%T/%T %s", va, vb, k.Type()), 70))
		}
	}
	// heap
	for id, hb := range B.Heap {
		ha, has := A.Heap[id]
		if !has {
			M.Heap[id] = hb
			continue
		}
		if sameVal(ha, hb) {
			continue
		}
		M.Heap[id] = ite(ha, hb)
	}
	for i := range A.Spy {
		if A.Spy[i].Name != B.Spy[i].Name {
			mfail("stub call log differs")
		}
		M.Spy[i] = spyRec{Name: A.Spy[i].Name, Args: ite(Tuple(A.Spy[i].Args), Tuple(B.Spy[i].Args)).(Tuple), Res: ite(A.Spy[i].Res, B.Spy[i].Res).(Tuple)}
	}
	// environment
	e.mergeEnv(M, A, B, cA, cB)
	for k, v := range B.Reached {
		if v {
			M.Reached[k] = true
		}
	}
	// pending assertions stated inside the region hold under their arm's condition
	M.Asserts = append([]pendingAssert{}, A.Asserts[:nAs]...)
	for _, a := range A.Asserts[nAs:] {
		M.Asserts = append(M.Asserts, pendingAssert{a.Label, tOr(tNot(cA), a.Cond)})
	}
	for _, a := range B.Asserts[nAs:] {
		M.Asserts = append(M.Asserts, pendingAssert{a.Label, tOr(tNot(cB), a.Cond)})
	}
	if B.Steps > M.Steps {
		M.Steps = B.Steps
	}
	M.PC = append(M.PC, names...)
	M.PC = append(M.PC, tOr(cA, cB))
	return M, true
}

func trunc(s string, n int) string {
	if len(s) > n {
		return s[:n]
	}
	return s
}

func tryIte(ite func(a, b Val) Val, a, b Val) (v Val, ok bool) {
	defer func() {
		if r := recover(); r != nil {
			v, ok = nil, false
		}
	}()
	return ite(a, b), true
}

// valIdentical: cheap structural identity of register values
func valIdentical(a, b Val) bool {
	switch x := a.(type) {
	case Sym:
		y, ok := b.(Sym)
		return ok && x == y
	case BigV:
		y, ok := b.(BigV)
		return ok && x == y
	case StrV:
		y, ok := b.(StrV)
		return ok && x == y
	case SymStr:
		y, ok := b.(SymStr)
		return ok && x == y
	case TimeV:
		y, ok := b.(TimeV)
		return ok && x == y
	case FloatV:
		y, ok := b.(FloatV)
		return ok && x == y
	case SliceV:
		y, ok := b.(SliceV)
		return ok && x == y
	case CtxV:
		y, ok := b.(CtxV)
		return ok && x == y
	case Ptr:
		y, ok := b.(Ptr)
		return ok && x.ID == y.ID && x.Glob == y.Glob && fmt.Sprint(x.Path) == fmt.Sprint(y.Path)
	case IfaceV:
		y, ok := b.(IfaceV)
		if !ok || x.NilIf != y.NilIf {
			return false
		}
		if x.T == nil || y.T == nil {
			return x.T == nil && y.T == nil
		}
		return types.Identical(x.T, y.T) && valIdentical(x.V, y.V)
	case StructV:
		y, ok := b.(StructV)
		if !ok || len(x.F) != len(y.F) {
			return false
		}
		if len(x.F) > 0 && &x.F[0] == &y.F[0] {
			return true
		}
		for i := range x.F {
			if !valIdentical(x.F[i], y.F[i]) {
				return false
			}
		}
		return true
	case Tuple:
		y, ok := b.(Tuple)
		if !ok || len(x) != len(y) {
			return false
		}
		for i := range x {
			if !valIdentical(x[i], y[i]) {
				return false
			}
		}
		return true
	case ArrV:
		y, ok := b.(ArrV)
		if !ok || len(x.E) != len(y.E) {
			return false
		}
		if len(x.E) > 0 && &x.E[0] == &y.E[0] {
			return true
		}
		for i := range x.E {
			if !valIdentical(x.E[i], y.E[i]) {
				return false
			}
		}
		return true
	case Closure:
		y, ok := b.(Closure)
		if !ok || x.Fn != y.Fn || len(x.Binds) != len(y.Binds) {
			return false
		}
		for i := range x.Binds {
			if !valIdentical(x.Binds[i], y.Binds[i]) {
				return false
			}
		}
		return true
	case OpaqueV:
		y, ok := b.(OpaqueV)
		return ok && x == y
	case BytesV:
		y, ok := b.(BytesV)
		return ok && x.Nil == y.Nil && keyString(x) == keyString(y)
	case nil:
		return b == nil
	}
	return reflect.DeepEqual(a, b)
}

// iteValM: if-then-else of two values living in two states; slices of equal concrete length are merged element-wise
// into a fresh array of the merged state.
func (e *Exec) iteValM(c string, a, b Val, A, B, M *State) Val {
	switch x := a.(type) {
	case SliceV:
		y, ok := b.(SliceV)
		if !ok {
			mfail("slice vs non-slice")
		}
		if x == y {
			return x
		}
		if x.SymLen != "" || y.SymLen != "" {
			// the same havocked slice, length already case-split on one arm: the un-split form is valid on both
			if x.ID == y.ID && x.Off == y.Off {
				if x.SymLen != "" {
					return x
				}
				return y
			}
		}
		if x.SymLen != "" || y.SymLen != "" || x.Len != y.Len {
			// different shapes: a slice with a symbolic length ite(c, lenA, lenB) over an array of the longer length
			ea, eb := e.sliceElemsRaw(A, x), e.sliceElemsRaw(B, y)
			n := len(ea)
			if len(eb) > n {
				n = len(eb)
			}
			if n > 8 {
				mfail("slices of different shape (long)")
			}
			if e.nameSink == nil {
				mfail("slices of different shape")
			}
			lenT := func(sl SliceV) string {
				if sl.SymLen != "" {
					return sl.SymLen
				}
				return fmt.Sprint(sl.Len)
			}
			if n == 0 {
				return SliceV{}
			}
			el := make([]Val, n)
			for i := range el {
				switch {
				case i < len(ea) && i < len(eb):
					if valIdentical(ea[i], eb[i]) {
						el[i] = ea[i]
					} else {
						el[i] = e.iteValM(c, ea[i], eb[i], A, B, M)
					}
				case i < len(ea):
					el[i] = ea[i]
				default:
					el[i] = eb[i]
				}
			}
			ns := e.newSlice(M, el)
			ln := e.sol.fresh("mlen", false)
			*e.nameSink = append(*e.nameSink, "#name#(= "+ln+" "+tIte(c, lenT(x), lenT(y))+")", fmt.Sprintf("(and (>= %s 0) (<= %s %d))", ln, ln, n))
			ns.SymLen = ln
			return ns
		}
		if x.Len == 0 {
			return SliceV{}
		}
		ea, eb := e.sliceElems(A, x), e.sliceElems(B, y)
		el := make([]Val, x.Len)
		for i := range el {
			el[i] = e.iteValM(c, ea[i], eb[i], A, B, M)
		}
		return e.newSlice(M, el)
	case StructV:
		y := b.(StructV)
		f := make([]Val, len(x.F))
		for i := range f {
			if valIdentical(x.F[i], y.F[i]) {
				f[i] = x.F[i]
			} else {
				f[i] = e.iteValM(c, x.F[i], y.F[i], A, B, M)
			}
		}
		return StructV{f}
	case ArrV:
		y := b.(ArrV)
		f := make([]Val, len(x.E))
		for i := range f {
			if valIdentical(x.E[i], y.E[i]) {
				f[i] = x.E[i]
			} else {
				f[i] = e.iteValM(c, x.E[i], y.E[i], A, B, M)
			}
		}
		return ArrV{f}
	case Tuple:
		y := b.(Tuple)
		f := make(Tuple, len(x))
		for i := range f {
			if valIdentical(x[i], y[i]) {
				f[i] = x[i]
			} else {
				f[i] = e.iteValM(c, x[i], y[i], A, B, M)
			}
		}
		return f
	case IfaceV:
		y, ok := b.(IfaceV)
		if !ok {
			mfail("iface vs non-iface")
		}
		return e.iteIface(c, x, y, A, B, M)
	case Ptr:
		y, ok := b.(Ptr)
		if ok && x.ID == y.ID && x.Glob == y.Glob && fmt.Sprint(x.Path) == fmt.Sprint(y.Path) {
			return x
		}
		// pointers to two different freshly built records of the same shape: merge the pointees into a new object
		// (only objects allocated inside the region: an older object may be aliased from outside, and a copy would
		// cut that alias - writes through the merged pointer would no longer be seen through the other name)
		if ok && x.Glob == nil && y.Glob == nil && x.ID > e.mergeMark && y.ID > e.mergeMark && len(x.Path) == 0 && len(y.Path) == 0 {
			va, vb := e.heapGet(A, x.ID), e.heapGet(B, y.ID)
			if va != nil && vb != nil && reflect.TypeOf(va) == reflect.TypeOf(vb) {
				nv := e.iteValM(c, va, vb, A, B, M)
				return e.alloc(M, nv)
			}
		}
		mfail("differing pointers")
	case MapV, RangeV, IterState:
		if reflect.DeepEqual(a, b) {
			return a
		}
		mfail("differing map/iterator state")
	case MarshaledV:
		y, ok := b.(MarshaledV)
		if !ok {
			mfail("marshaled vs other")
		}
		if x.Lazy != nil || y.Lazy != nil {
			if x.Lazy == y.Lazy {
				return x
			}
			mfail("lazy records differ")
		}
		if !types.Identical(x.T, y.T) {
			mfail("marshaled types differ")
		}
		return MarshaledV{T: x.T, V: e.iteValM(c, x.V, y.V, A, B, M)}
	case GetResult:
		mfail("store read result live across a merge")
	}
	return e.iteVal(c, a, b)
}

// iteIface: nil / non-nil interface values merge into a maybe-nil interface (NilIf); two non-nil values need the same dynamic type.
func (e *Exec) iteIface(c string, x, y IfaceV, A, B, M *State) Val {
	nilX, nilY := ifaceNilTerm(x), ifaceNilTerm(y)
	if nilX == "true" && nilY == "true" {
		return IfaceV{}
	}
	nilM := e.mkIte(c, nilX, nilY, "Bool")
	switch {
	case nilX == "true":
		return IfaceV{T: y.T, V: y.V, NilIf: nilM}
	case nilY == "true":
		return IfaceV{T: x.T, V: x.V, NilIf: nilM}
	}
	if !types.Identical(x.T, y.T) {
		mfail("interfaces of different dynamic type")
	}
	var v Val
	if _, isOp := x.V.(OpaqueV); isOp {
		v = x.V // freshly built error values carry no data
	} else {
		v = e.iteValM(c, x.V, y.V, A, B, M)
	}
	if nilM == "false" {
		nilM = ""
	}
	return IfaceV{T: x.T, V: v, NilIf: nilM}
}

func ifaceNilTerm(x IfaceV) string {
	if x.T == nil {
		return "true"
	}
	if x.NilIf == "" {
		return "false"
	}
	return x.NilIf
}

// ---- environment merge ----

func splitLog(l []StoreEntry) (pre, wr []StoreEntry) {
	for _, en := range l {
		if en.Pre {
			pre = append(pre, en)
		} else {
			wr = append(wr, en)
		}
	}
	return
}

func sameEntry(a, b StoreEntry) bool {
	if a.Present != b.Present || keyString(a.Key) != keyString(b.Key) {
		return false
	}
	return valIdentical(a.Val, b.Val)
}

func (e *Exec) mergeEnv(M, A, B *State, cA, cB string) {
	ea, eb, em := A.env(), B.env(), M.env()
	if len(ea.L) != len(eb.L) {
		mfail("context layers differ")
	}
	if !reflect.DeepEqual(ea.Marked, eb.Marked) || ea.MarkSupply != eb.MarkSupply || !reflect.DeepEqual(ea.MarkStores, eb.MarkStores) {
		mfail("Mark inside region")
	}
	if ea.MapReverse != eb.MapReverse {
		mfail("map order flag")
	}
	if ea.Now == "" {
		em.Now = eb.Now
	}
	if ea.Height == "" {
		em.Height = eb.Height
	}
	if ea.ChainID == nil {
		em.ChainID = eb.ChainID
	}
	for cid, la := range ea.L {
		lb, ok := eb.L[cid]
		if !ok {
			mfail("context layers differ")
		}
		lm := em.L[cid]
		names := map[string]bool{}
		for n := range la.Stores {
			names[n] = true
		}
		for n := range lb.Stores {
			names[n] = true
		}
		for name := range names {
			preA, wrA := splitLog(la.Stores[name])
			preB, wrB := splitLog(lb.Stores[name])
			// pre-state entries: union
			pre := append([]StoreEntry{}, preA...)
			for _, pb := range preB {
				have := false
				for _, pa := range preA {
					if pa.Present == pb.Present {
						have = true
						break
					}
				}
				if !have {
					pre = append(pre, pb)
				}
			}
			k := 0
			for k < len(wrA) && k < len(wrB) && sameEntry(wrA[k], wrB[k]) {
				k++
			}
			log := append(append([]StoreEntry{}, pre...), wrA[:k]...)
			lm.Stores[name] = log
			// writes made on one arm only become guarded writes: under the arm's condition the new value, else the current one
			for _, arm := range []struct {
				ents []StoreEntry
				c    string
				st   *State
			}{{wrA[k:], cA, A}, {wrB[k:], cB, B}} {
				for _, en := range arm.ents {
					g := e.storeGet(M, StoreV{Name: name, Ctx: cid}, en.Key)
					curP := g.presentTerm()
					ne := StoreEntry{Key: en.Key, Present: e.mkIte(arm.c, en.Present, curP, "Bool")}
					switch nv := en.Val.(type) {
					case MarshaledV:
						if nv.Lazy != nil {
							if nv.Lazy.Mat == nil {
								mfail("lazy value written back")
							}
							nv = MarshaledV{T: nv.Lazy.T, V: nv.Lazy.Mat}
						}
						cur := e.unmarshalGet(M, g, nv.T)
						if arm.st == A {
							ne.Val = MarshaledV{T: nv.T, V: e.iteValM(arm.c, nv.V, cur, A, M, M)}
						} else {
							ne.Val = MarshaledV{T: nv.T, V: e.iteValM(arm.c, nv.V, cur, B, M, M)}
						}
					case BytesV:
						// delete marker or raw bytes
						if en.Present == "false" {
							// a delete: the value is irrelevant when absent; keep the current value for the other arm
							ne.Val = e.currentVal(M, g)
						} else {
							if len(g.Ents) == 1 {
								if cb, ok := g.Ents[0].Val.(BytesV); ok && keyString(cb) == keyString(nv) {
									ne.Val = nv
									break
								}
							}
							mfail("raw bytes written on one arm")
						}
					default:
						mfail("store value kind")
					}
					lm.Stores[name] = append(lm.Stores[name], ne)
				}
			}
		}
		// bank
		k := 0
		for k < len(la.Bank) && k < len(lb.Bank) && la.Bank[k] == lb.Bank[k] {
			k++
		}
		lm.Bank = append([]BankWrite{}, la.Bank[:k]...)
		for _, arm := range []struct {
			ws []BankWrite
			c  string
		}{{la.Bank[k:], cA}, {lb.Bank[k:], cB}} {
			for _, w := range arm.ws {
				cur := e.balance(M, cid, w.Addr, w.Denom)
				lm.Bank = append(lm.Bank, BankWrite{w.Addr, w.Denom, e.mkIte(arm.c, w.Val, cur, "Int")})
			}
		}
	}
	// supply
	k := 0
	for k < len(ea.Supply) && k < len(eb.Supply) && ea.Supply[k] == eb.Supply[k] {
		k++
	}
	em.Supply = append([]BankWrite{}, ea.Supply[:k]...)
	for _, arm := range []struct {
		ws []BankWrite
		c  string
	}{{ea.Supply[k:], cA}, {eb.Supply[k:], cB}} {
		for _, w := range arm.ws {
			cur := e.supply(M, w.Denom, -1)
			em.Supply = append(em.Supply, BankWrite{Denom: w.Denom, Val: e.mkIte(arm.c, w.Val, cur, "Int")})
		}
	}
	// events: guarded
	k = 0
	for k < len(ea.Events) && k < len(eb.Events) && ea.Events[k].Guard == eb.Events[k].Guard {
		k++
	}
	em.Events = append([]Event{}, ea.Events[:k]...)
	for _, ev := range ea.Events[k:] {
		em.Events = append(em.Events, Event{Type: ev.Type, Guard: tAnd(cA, guardOf(ev))})
	}
	for _, ev := range eb.Events[k:] {
		em.Events = append(em.Events, Event{Type: ev.Type, Guard: tAnd(cB, guardOf(ev))})
	}
	if eb.NextCtx > em.NextCtx {
		em.NextCtx = eb.NextCtx
	}
}

func guardOf(ev Event) string {
	if ev.Guard == "" {
		return "true"
	}
	return ev.Guard
}

// currentVal: the value currently stored under the key of g (merged over aliasing candidates)
func (e *Exec) currentVal(M *State, g GetResult) Val {
	if len(g.Ents) == 1 {
		return g.Ents[0].Val
	}
	for _, en := range g.Ents {
		if mv, ok := en.Val.(MarshaledV); ok {
			t := mv.T
			if mv.Lazy != nil {
				t = mv.Lazy.T
			}
			if t != nil {
				return MarshaledV{T: t, V: e.unmarshalGet(M, g, t)}
			}
		}
	}
	mfail("current value of a deleted key has no known type")
	return nil
}

// armImplies: under the base path condition and the arm condition c, does fact hold?
func (e *Exec) armImplies(c, fact string) bool {
	pc := append(append([]string{}, e.mergeBase...), c)
	return e.sol.check(pc, tNot(fact)) == "unsat"
}

// sliceElemsRaw: the backing elements of a slice up to its maximal length (for havocked slices: the bound L)
func (e *Exec) sliceElemsRaw(s *State, sl SliceV) []Val {
	if sl.ID == 0 {
		return nil
	}
	arr := e.heapGet(s, sl.ID).(ArrV)
	return arr.E[sl.Off : sl.Off+sl.Len]
}
