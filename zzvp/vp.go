// Package zzvp is the harness vocabulary of the solver-based checks in /verif.
// It is injected into the repository as a virtual package through a build overlay; nothing is written to /repo.
// Every function whose body panics("sym") is intercepted by the symbolic executor (gosym); the others are ordinary Go
// executed symbolically like the code under test.
package zzvp

import (
	"math/big"
	"time"

	sdkmath "cosmossdk.io/math"
	sdk "github.com/cosmos/cosmos-sdk/types"
)

// ---- symbolic inputs (solver variables) ----
func AnyUint64() uint64         { panic("sym") }
func AnyInt64() int64           { panic("sym") }
func AnyInt() int               { panic("sym") }
func AnyUint32() uint32         { panic("sym") }
func AnyBool() bool             { panic("sym") }
func AnySdkInt() sdkmath.Int    { panic("sym") } // any value of the library's width (|x| < 2^256)
func AnyDec() sdkmath.LegacyDec { panic("sym") } // any mantissa with |x| < 2^256
func AnyString() string         { panic("sym") }
func AnyAddr() sdk.AccAddress   { panic("sym") } // any user address (never a module account)
func AnyTime() time.Time        { panic("sym") }
func AnyOf(dst interface{})     { panic("sym") } // *dst := arbitrary value of its type (amounts non-negative)

// ---- specification ----
func Assume(b bool)                         { panic("sym") }
func Assert(b bool, label string)           { panic("sym") } // one solver query per path; the path continues without assuming b
func AssertAndAssume(b bool, label string)  { panic("sym") }
func Reach(label string)                    { panic("sym") } // vacuity guard: must be satisfiable on at least one path
func Choose(n int) int                      { panic("sym") } // concrete nondeterministic choice 0..n-1 (grid points)
func Thorough() bool                        { panic("sym") }
func Seed() int64                           { panic("sym") }
func Bound(name string, v int)              { panic("sym") } // "unwind", "slice-len", "max-paths"
func Option(name string)                    { panic("sym") }
func Stub(fullFuncName string)               { panic("sym") } // replace a callee by "any result of its type" (listed in evidence)
func StubMayPanic(fullFuncName string)        { panic("sym") } // like Stub, and the callee may also panic
func SpyCount(fullFuncName string) int                { panic("sym") } // calls of a stubbed function on this path
func SpyArgZ(fullFuncName string, call, arg int) Z    { panic("sym") } // numeric argument (0 = receiver)
func SpyArgBool(fullFuncName string, call, arg int) bool { panic("sym") }
func SpyErrNil(fullFuncName string, call int) bool    { panic("sym") }
func SpyArgIsCtx(fullFuncName string, call, arg int, ctx sdk.Context) bool { panic("sym") } // was that context argument this very context (not a cache context branched from it)?
// did the stub return a nil error
func SpyResZ(fullFuncName string, call, res int) Z { panic("sym") } // numeric result number res of the stub's call
func StubMonotone(fullFuncName string, arg, result int) { panic("sym") } // stub that is non-decreasing in argument arg (0 = receiver) for result index
func Note(assumption string)                { panic("sym") } // echoed under assumptions in the evidence file

// Branch-free connectives for specifications (Go's && || and if fork the symbolic execution; these do not).
func And(bs ...bool) bool {
	for _, b := range bs {
		if !b {
			return false
		}
	}
	return true
}
func Or(bs ...bool) bool {
	for _, b := range bs {
		if b {
			return true
		}
	}
	return false
}
func Implies(a, b bool) bool { return !a || b }
func IteZ(c bool, a, b Z) Z {
	if c {
		return a
	}
	return b
}
func IteU(c bool, a, b uint64) uint64 {
	if c {
		return a
	}
	return b
}

// ---- environment ----
func Wire(dst interface{})                                     { panic("sym") } // *dst := the real keeper struct wired over the environment model
func Ctx() sdk.Context                                         { panic("sym") } // context over a lazily havocked (arbitrary) pre-state
func ClosedCtx() sdk.Context                                   { panic("sym") } // same context, closed world: unseeded keys are absent
func EmptyCtx() sdk.Context                                    { panic("sym") } // a fresh empty closed store
func ClosePrefix(store string, prefix []byte)                 { panic("sym") } // the table under prefix holds exactly what the harness seeds
func Mark()                                                    { panic("sym") }
func ModuleAddr(name string) sdk.AccAddress                    { panic("sym") }
func Balance(ctx sdk.Context, a sdk.AccAddress, denom string) sdkmath.Int { panic("sym") }
func BalanceDelta(a sdk.AccAddress, denom string) sdkmath.Int  { panic("sym") } // since Mark
func SetBalance(a sdk.AccAddress, denom string, v sdkmath.Int) { panic("sym") }
func BankTouched(a sdk.AccAddress, denom string) bool          { panic("sym") }
func OnlyWritten(store string, prefix []byte, keys ...[]byte) bool { panic("sym") } // all writes since Mark under prefix hit one of keys
func BankWritesSinceMark() int                                 { panic("sym") }
func Supply(denom string) sdkmath.Int                          { panic("sym") }
func SupplyDelta(denom string) sdkmath.Int                     { panic("sym") }
func EventCount() int                                          { panic("sym") }
func InjectFault() int                                         { panic("sym") } // the n-th store/bank access from here on panics, n chosen by the solver
func StopFaults() int                                          { panic("sym") }
func ReverseMapOrder(on bool)                                  { panic("sym") }

// VPInsertionSort is the model of sort.SliceStable / sort.Slice for concrete-length slices:
// a stable insertion sort that calls the real less closure.
func VPInsertionSort(n int, less func(i, j int) bool, swap func(i, j int)) {
	for i := 1; i < n; i++ {
		for j := i; j > 0 && less(j, j-1); j-- {
			swap(j, j-1)
		}
	}
}

// Try runs f and reports whether it panicked (ordinary Go: executed symbolically with the executor's defer/recover).
func Try(f func()) (panicked bool) {
	defer func() {
		if r := recover(); r != nil {
			panicked = true
		}
	}()
	f()
	return false
}

// ---- Z: unbounded mathematical integers for writing specifications (no 256-bit overflow panics) ----
// In the symbolic executor Z is an SMT Int and these methods are intrinsics; natively they are math/big.
type Z struct{ v *big.Int }

func zv(a Z) *big.Int {
	if a.v == nil {
		return new(big.Int)
	}
	return a.v
}
func ZI(i sdkmath.Int) Z       { return Z{i.BigInt()} }
func ZD(d sdkmath.LegacyDec) Z { return Z{d.BigInt()} } // the mantissa: value * 10^18
func ZN(n int64) Z             { return Z{big.NewInt(n)} }
func ZU(n uint64) Z            { return Z{new(big.Int).SetUint64(n)} }
func ZS(s string) Z {
	v, ok := new(big.Int).SetString(s, 10)
	if !ok {
		panic("ZS: bad literal")
	}
	return Z{v}
}
func Pow10(k int) Z { return Z{new(big.Int).Exp(big.NewInt(10), big.NewInt(int64(k)), nil)} }
func (a Z) Add(b Z) Z { return Z{new(big.Int).Add(zv(a), zv(b))} }
func (a Z) Sub(b Z) Z { return Z{new(big.Int).Sub(zv(a), zv(b))} }
func (a Z) Mul(b Z) Z { return Z{new(big.Int).Mul(zv(a), zv(b))} }
func (a Z) Neg() Z    { return Z{new(big.Int).Neg(zv(a))} }
func (a Z) LT(b Z) bool    { return zv(a).Cmp(zv(b)) < 0 }
func (a Z) LTE(b Z) bool   { return zv(a).Cmp(zv(b)) <= 0 }
func (a Z) GT(b Z) bool    { return zv(a).Cmp(zv(b)) > 0 }
func (a Z) GTE(b Z) bool   { return zv(a).Cmp(zv(b)) >= 0 }
func (a Z) Equal(b Z) bool { return zv(a).Cmp(zv(b)) == 0 }
func (a Z) IsZero() bool     { return zv(a).Sign() == 0 }
func (a Z) IsNegative() bool { return zv(a).Sign() < 0 }
func (a Z) IsPositive() bool { return zv(a).Sign() > 0 }
