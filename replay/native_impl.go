// Native bodies of the harness vocabulary, used only by `./check <id> --replay <dir>`:
// the harness is compiled by the ordinary Go compiler against the real comdex code, the Any*() calls return the
// values of the solver's counterexample in call order, Choose() returns the recorded choices, Assume/Assert are
// evaluated natively. Functions of the environment model (Ctx, Wire, Stub, ...) have no native body: a harness that
// needs them is reported as "not natively replayable".
package zzvp

import (
	"encoding/json"
	"fmt"
	"math/big"
	"os"
	"reflect"
	"time"

	sdkmath "cosmossdk.io/math"
	sdk "github.com/cosmos/cosmos-sdk/types"
)

type NotReplayable struct{ What string }
type AssumeFailed struct{ N int }

type replayInput struct {
	Kind  string `json:"kind"`
	Name  string `json:"name"`
	Value string `json:"value"`
}

var replay struct {
	Inputs   []replayInput `json:"replay_inputs"`
	Choices  []int         `json:"choices"`
	Tier     int           `json:"tier"`
	Harness  string        `json:"harness"`
	Assert   string        `json:"assertion"`
	pos, cho int
	assumes  int
	Failed   []string
	Checked  []string
}

// LoadReplay reads <dir>/counterexample.json
func LoadReplay(dir string) error {
	b, err := os.ReadFile(dir + "/counterexample.json")
	if err != nil {
		return err
	}
	replay.Inputs, replay.Choices, replay.Failed, replay.Checked = nil, nil, nil, nil
	replay.pos, replay.cho, replay.assumes = 0, 0, 0
	nativeEmptyCtxCalls = 0
	return json.Unmarshal(b, &replay)
}

func ReplayHarness() string    { return replay.Harness }
func ReplayAssertion() string  { return replay.Assert }
func ReplayFailed() []string   { return replay.Failed }
func ReplayChecked() []string  { return replay.Checked }
func ReplayInputsUsed() (int, int) { return replay.pos, len(replay.Inputs) }

func notReplayable(what string) NotReplayable { return NotReplayable{what} }

func next(kinds ...string) *big.Int {
	if replay.pos >= len(replay.Inputs) {
		// the native path asks for more inputs than the symbolic path created: an unconstrained value
		replay.pos++
		return new(big.Int)
	}
	in := replay.Inputs[replay.pos]
	replay.pos++
	ok := false
	for _, k := range kinds {
		if in.Kind == k {
			ok = true
		}
	}
	if !ok {
		panic(fmt.Sprintf("replay diverged: input %d is a %s, the harness asks for %v", replay.pos-1, in.Kind, kinds))
	}
	if in.Value == "true" {
		return big.NewInt(1)
	}
	if in.Value == "false" {
		return new(big.Int)
	}
	v, good := new(big.Int).SetString(in.Value, 10)
	if !good {
		panic("replay: cannot parse value " + in.Value)
	}
	return v
}

func nAnyUint64() uint64 { return next("uint64").Uint64() }
func nAnyInt64() int64   { return next("int64").Int64() }
func nAnyInt() int       { return int(next("int").Int64()) }
func nAnyUint32() uint32 { return uint32(next("uint32").Uint64()) }
func nAnyBool() bool     { return next("bool").Sign() != 0 }
func nAnySdkInt() sdkmath.Int {
	return sdkmath.NewIntFromBigInt(next("sdkint"))
}
func nAnyDec() sdkmath.LegacyDec {
	return sdkmath.LegacyNewDecFromBigIntWithPrec(next("dec"), sdkmath.LegacyPrecision)
}
func nAnyTime() time.Time { return time.Unix(next("time").Int64(), 0).UTC() }

// strings and addresses are abstract identifiers in the encoding (equality only): identifier n becomes "s<n>" / a
// 20-byte address holding n
func nAnyString() string { return "s" + next("string").String() }
func nAnyAddr() sdk.AccAddress {
	b := make([]byte, 20)
	next("addr").FillBytes(b)
	return sdk.AccAddress(b)
}

func nAssume(b bool) {
	replay.assumes++
	if !b {
		panic(AssumeFailed{replay.assumes})
	}
}
func nAssert(b bool, label string) {
	replay.Checked = append(replay.Checked, label)
	if !b {
		replay.Failed = append(replay.Failed, label)
	}
}
func nAssertAndAssume(b bool, label string) {
	nAssert(b, label)
	if !b {
		panic(AssumeFailed{-1})
	}
}
func nReach(label string) {}
func nChoose(n int) int {
	if replay.cho >= len(replay.Choices) {
		panic("replay diverged: more Choose() calls than recorded")
	}
	c := replay.Choices[replay.cho]
	replay.cho++
	if c < 0 || c >= n {
		panic("replay diverged: recorded choice out of range")
	}
	return c
}
func nThorough() bool                  { return replay.Tier > 0 }
func nSeed() int64                     { return 0 }
func nBound(name string, v int)        {}
func nOption(name string)              {}
func nNote(assumption string)          {}
// Go's own (random) map order applies natively: the replay test repeats such a harness several times
func nReverseMapOrder(on bool) { nativeMapOrder = true }

var nativeMapOrder bool

func ReplayUsesMapOrder() bool { return nativeMapOrder }

// ---- closed-world harnesses: the replay test (an external test package that may import the app) provides a real
// context and the real keepers; nothing of the environment MODEL is used natively. ----

// NativeEnv is filled in by the generated replay test before the harness runs.
var NativeEnv struct {
	Ctx        func() sdk.Context
	Wire       func(dst interface{}) bool
	Balance    func(a sdk.AccAddress, denom string) sdkmath.Int
	Supply     func(denom string) sdkmath.Int
	SetBalance func(a sdk.AccAddress, denom string, v sdkmath.Int)
	ModuleAddr func(name string) sdk.AccAddress
}

var nativeUsedEnv bool
var nativeMark = map[string]sdkmath.Int{}
var nativeMarked bool
var nativeModel map[string]string

func ReplayUsedEnv() bool { return nativeUsedEnv }

// ReplayModelInt returns the model's value of the first pre-state symbol with the given prefix (e.g. "height_")
func ReplayModelInt(prefix string) (int64, bool) {
	if nativeModel == nil {
		var raw struct {
			M map[string]string `json:"model_of_pre_state_symbols"`
		}
		if b, err := os.ReadFile(replayDir + "/counterexample.json"); err == nil {
			json.Unmarshal(b, &raw)
		}
		nativeModel = raw.M
		if nativeModel == nil {
			nativeModel = map[string]string{}
		}
	}
	for k, v := range nativeModel {
		if len(k) > len(prefix) && k[:len(prefix)] == prefix {
			if n, ok := new(big.Int).SetString(v, 10); ok && n.IsInt64() {
				return n.Int64(), true
			}
		}
	}
	return 0, false
}

var replayDir string

func SetReplayDir(d string) { replayDir = d }

func nativeCtx(what string) sdk.Context {
	if NativeEnv.Ctx == nil {
		panic(notReplayable(what))
	}
	nativeUsedEnv = true
	return NativeEnv.Ctx()
}
var nativeEmptyCtxCalls int

// the native run has ONE real store: a harness that needs two independent empty stores (genesis export / import) cannot
// be replayed on it
func nEmptyCtx() sdk.Context {
	nativeEmptyCtxCalls++
	if nativeEmptyCtxCalls > 1 {
		panic(notReplayable("EmptyCtx (a second independent store)"))
	}
	return nativeCtx("EmptyCtx")
}
func nClosedCtx() sdk.Context { return nativeCtx("ClosedCtx") }
func nWire(dst interface{}) {
	if NativeEnv.Wire == nil || !NativeEnv.Wire(dst) {
		panic(notReplayable(fmt.Sprintf("Wire(%T)", dst)))
	}
	nativeUsedEnv = true
}
func nModuleAddr(name string) sdk.AccAddress {
	if NativeEnv.ModuleAddr == nil {
		panic(notReplayable("ModuleAddr"))
	}
	return NativeEnv.ModuleAddr(name)
}
func nBalance(ctx sdk.Context, a sdk.AccAddress, denom string) sdkmath.Int {
	if NativeEnv.Balance == nil {
		panic(notReplayable("Balance"))
	}
	return NativeEnv.Balance(a, denom)
}
func nSupply(denom string) sdkmath.Int {
	if NativeEnv.Supply == nil {
		panic(notReplayable("Supply"))
	}
	return NativeEnv.Supply(denom)
}
func nSetBalance(a sdk.AccAddress, denom string, v sdkmath.Int) {
	if NativeEnv.SetBalance == nil {
		panic(notReplayable("SetBalance"))
	}
	NativeEnv.SetBalance(a, denom, v)
}

// Mark is a no-op natively; BalanceDelta / SupplyDelta have no native body yet (harnesses using them are reported as
// not natively replayable).
func nMark() { nativeMarked = true; nativeMark = map[string]sdkmath.Int{} }

// ---- AnyOf: rebuild the havocked value by walking the type in the executor's order (engine/env.go anyOf) ----
func nAnyOf(dst interface{}) { fillAny(reflect.ValueOf(dst).Elem()) }

func setIf(v reflect.Value, x interface{}) {
	if v.CanSet() {
		v.Set(reflect.ValueOf(x).Convert(v.Type()))
	}
}

func fillAny(v reflect.Value) {
	t := v.Type()
	switch t.PkgPath() + "." + t.Name() {
	case "cosmossdk.io/math.Int":
		setIf(v, sdkmath.NewIntFromBigInt(next("rbig")))
		return
	case "cosmossdk.io/math.LegacyDec":
		setIf(v, sdkmath.LegacyNewDecFromBigIntWithPrec(next("rbig"), sdkmath.LegacyPrecision))
		return
	case "time.Time":
		setIf(v, time.Unix(next("rtime").Int64(), 0).UTC())
		return
	case "time.Duration":
		setIf(v, time.Duration(next("rdur").Int64()))
		return
	case "github.com/cosmos/cosmos-sdk/types.Coin":
		d := "s" + next("rstr").String()
		setIf(v, sdk.Coin{Denom: d, Amount: sdkmath.NewIntFromBigInt(next("rbig"))})
		return
	}
	switch t.Kind() {
	case reflect.Bool:
		b := next("rbool").Sign() != 0
		if v.CanSet() {
			v.SetBool(b)
		}
	case reflect.Int, reflect.Int8, reflect.Int16, reflect.Int32, reflect.Int64:
		n := next("rint").Int64()
		if v.CanSet() {
			v.SetInt(n)
		}
	case reflect.Uint, reflect.Uint8, reflect.Uint16, reflect.Uint32, reflect.Uint64:
		n := next("rint").Uint64()
		if v.CanSet() {
			v.SetUint(n)
		}
	case reflect.String:
		s := "s" + next("rstr").String()
		if v.CanSet() {
			v.SetString(s)
		}
	case reflect.Float32, reflect.Float64:
		f, _ := new(big.Float).SetInt(next("rflt")).Float64()
		if v.CanSet() {
			v.SetFloat(f)
		}
	case reflect.Struct:
		for i := 0; i < t.NumField(); i++ {
			fillAny(v.Field(i))
		}
	case reflect.Slice:
		if t.Elem().Kind() == reflect.Uint8 {
			b := []byte("b" + next("rbytes").String())
			if v.CanSet() {
				v.SetBytes(b)
			}
			return
		}
		L := int(next("rcap").Int64())
		if L == 0 {
			return
		}
		sl := reflect.MakeSlice(t, L, L)
		for i := 0; i < L; i++ {
			fillAny(sl.Index(i))
		}
		n := int(next("rlen").Int64())
		if n < 0 || n > L {
			n = 0
		}
		if v.CanSet() {
			if n == 0 {
				v.Set(reflect.Zero(t))
			} else {
				v.Set(sl.Slice(0, n))
			}
		}
	case reflect.Ptr:
		if t.Elem().Kind() == reflect.Struct && t.Elem().PkgPath()+"."+t.Elem().Name() != "github.com/cosmos/cosmos-sdk/codec/types.Any" {
			p := reflect.New(t.Elem())
			fillAny(p.Elem())
			if v.CanSet() {
				v.Set(p)
			}
		}
	case reflect.Array:
		for i := 0; i < t.Len(); i++ {
			fillAny(v.Index(i))
		}
	}
}
